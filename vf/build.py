"""dznpy-facing helpers: model description -> FileContents / Configuration -> build result."""
import contextlib
import io
import json

from . import docgen as D


def parse_model(model):
    from dznpy.json_ast import DznJsonAst  # pylint: disable=import-outside-toplevel
    with contextlib.redirect_stdout(io.StringIO()):
        return DznJsonAst(json.dumps(D.to_json(model['doc']))).process()


def mk_select(sel):
    from dznpy.adv_shell import PortSelect, PortWildcard  # pylint: disable=import-outside-toplevel
    if isinstance(sel, str):
        return PortSelect(PortWildcard[sel])
    return PortSelect(set(sel))


def mk_ports_cfg(cfg):
    from dznpy.adv_shell import PortsCfg, PortsSemanticsCfg, MultiClientPortCfg  # pylint: disable=import-outside-toplevel
    from dznpy.scoping import ns_ids_t  # pylint: disable=import-outside-toplevel
    mcfg = None
    if cfg.get('mc'):
        m = cfg['mc']
        mcfg = MultiClientPortCfg(m['port'], m['claim'], ns_ids_t(m['grant']), m['release'])
    return PortsCfg(provides=PortsSemanticsCfg(sts=mk_select(cfg['provides'][0]), mts=mk_select(cfg['provides'][1])),
                    requires=PortsSemanticsCfg(sts=mk_select(cfg['requires'][0]), mts=mk_select(cfg['requires'][1])),
                    multiclient=mcfg)


def mk_configuration(model, cfg, fct=None, ports_cfg=None):
    from dznpy.adv_shell import Configuration  # pylint: disable=import-outside-toplevel
    from dznpy.adv_shell.common import FacilitiesOrigin  # pylint: disable=import-outside-toplevel
    from dznpy.scoping import ns_ids_t  # pylint: disable=import-outside-toplevel
    fct = fct if fct is not None else parse_model(model)
    prefix = ns_ids_t(cfg['prefix']) if cfg.get('prefix') else None
    return Configuration(dezyne_filename=model['file'], ast_fc=fct,
                         output_basename_suffix=cfg.get('suffix', 'Shell'),
                         fqn_encapsulee_name=ns_ids_t(list(model['encapsulee'])),
                         ports_cfg=ports_cfg if ports_cfg is not None else mk_ports_cfg(cfg),
                         facilities_origin=FacilitiesOrigin.CREATE if cfg.get('fac', 'create') == 'create'
                         else FacilitiesOrigin.IMPORT,
                         copyright=cfg.get('copyright', '(c)'),
                         support_files_ns_prefix=prefix,
                         creator_info=cfg.get('creator'))


def build(model, cfg):
    """Returns the list of (filename, contents, hash)."""
    from dznpy.adv_shell import Builder  # pylint: disable=import-outside-toplevel
    res = Builder().build(mk_configuration(model, cfg))
    return [(f.filename, f.contents, f.hash) for f in res.files]


def library_error_types():
    from dznpy.adv_shell.types import AdvShellError  # pylint: disable=import-outside-toplevel
    from dznpy.ast_view import FindError  # pylint: disable=import-outside-toplevel
    from dznpy.cpp_gen import CppGenError  # pylint: disable=import-outside-toplevel
    from dznpy.json_ast import DznJsonError  # pylint: disable=import-outside-toplevel
    from dznpy.scoping import NamespaceIdsTypeError  # pylint: disable=import-outside-toplevel
    return (AdvShellError, FindError, CppGenError, DznJsonError, NamespaceIdsTypeError)


def is_library_error(exc):
    mod = type(exc).__module__ or ''
    return mod == 'dznpy' or mod.startswith('dznpy.')
