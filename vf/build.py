"""dznpy-facing helpers: model description -> FileContents / Configuration -> build result."""
import contextlib
import copy
import io
import json

from . import docgen as D


def parse_model(model):
    from dznpy.json_ast import DznJsonAst  # pylint: disable=import-outside-toplevel
    with contextlib.redirect_stdout(io.StringIO()):
        return DznJsonAst(json.dumps(D.to_json(model['doc']))).process()


# FAILURE PATHS: the model parsed by a parser instance that had FAILED on another document before (inside nested namespaces)
_FAILING_DOC = [['enum', 'Early', ['E']], ['ns', ['Zq'], [['ns', ['Zr', 'Zs'], [
    ['enum', 'Fine', ['F']], ['junk', {'<class>': 'component', 'name': D.sn(['Broken'])}]]]]]]
_FAILING_DOC2 = [['ns', ['Zq'], [['ns', ['Zr'], [['junk', {'<class>': 'enum', 'name': D.sn(['Not-An-Identifier']), 'fields': []}]]]]]]
_REUSE = {}
_USER_CLASSES = {}
EXTRA_FORMS = set()       # checks that want every build() repeated on a model from a re-used parser add 'reused-parser'


def parse_model_reused(model, which=0):
    import os  # pylint: disable=import-outside-toplevel
    import tempfile  # pylint: disable=import-outside-toplevel
    from dznpy.json_ast import DznJsonAst  # pylint: disable=import-outside-toplevel
    with contextlib.redirect_stdout(io.StringIO()):
        parser = DznJsonAst(json.dumps(D.to_json(_FAILING_DOC2 if which else _FAILING_DOC)))
        try:
            parser.process()
        except Exception as exc:  # pylint: disable=broad-except
            _REUSE['kept'] = exc      # kept alive together with its traceback
        else:
            raise AssertionError('the failing document was accepted')
        if _REUSE.get('pid') != os.getpid():
            _REUSE['dir'] = tempfile.mkdtemp(prefix='vf_reuse_')
            _REUSE['pid'] = os.getpid()
        path = os.path.join(_REUSE['dir'], 'model.json')
        with open(path, 'w', encoding='utf-8') as fh:
            json.dump(D.to_json(model['doc']), fh)
        return parser.load_file(path).process()


def cleanup_reuse():
    import os  # pylint: disable=import-outside-toplevel
    import shutil  # pylint: disable=import-outside-toplevel
    if _REUSE.get('pid') == os.getpid() and 'dir' in _REUSE:
        shutil.rmtree(_REUSE['dir'], ignore_errors=True)
    _REUSE.clear()


class StrSub(str):
    """REPRESENTATION: a name that is an instance of a str subclass with its own __str__ - like a member of
    `class Port(str, Enum)`, whose str() is 'Port.GLUE' while it IS the string 'glue'."""

    def __str__(self):
        return 'StrSub.MEMBER'

    def __repr__(self):
        return '<StrSub>'


def mk_select(sel, form=None):
    from dznpy.adv_shell import PortSelect, PortWildcard  # pylint: disable=import-outside-toplevel
    if form == 'selsubclass':
        # EXTENSION: the selections are instances of a user's own (empty) subclass of PortSelect
        if 'UserSelect' not in _USER_CLASSES:
            class UserSelect(PortSelect):          # ONE user class (instances of it compare like the base class does)
                def describe(self):
                    return f'user selection {self.value}'
            _USER_CLASSES['UserSelect'] = UserSelect
        cls = _USER_CLASSES['UserSelect']
        return cls(PortWildcard[sel]) if isinstance(sel, str) else cls(set(sel))
    if isinstance(sel, str):
        return PortSelect(PortWildcard[sel])
    if form == 'subclass':
        return PortSelect({StrSub(n) for n in sel})
    return PortSelect(set(sel))


def mk_ports_cfg(cfg):
    from dznpy.adv_shell import PortsCfg, PortsSemanticsCfg, MultiClientPortCfg  # pylint: disable=import-outside-toplevel
    from dznpy.scoping import ns_ids_t  # pylint: disable=import-outside-toplevel
    mcfg = None
    form = cfg.get('names_form')
    wrap = StrSub if form == 'subclass' else (lambda x: x)
    if cfg.get('mc'):
        m = cfg['mc']
        mcfg = MultiClientPortCfg(wrap(m['port']), wrap(m['claim']), ns_ids_t(m['grant']), wrap(m['release']))
    return PortsCfg(provides=PortsSemanticsCfg(sts=mk_select(cfg['provides'][0], form), mts=mk_select(cfg['provides'][1], form)),
                    requires=PortsSemanticsCfg(sts=mk_select(cfg['requires'][0], form), mts=mk_select(cfg['requires'][1], form)),
                    multiclient=mcfg)


def _origin(cfg, origin_enum):
    """'create' / 'import', or one of the deliberately invalid values 'RAW:...' (not a member of the enumeration)."""
    fac = cfg.get('fac', 'create')
    if fac == 'create':
        return origin_enum.CREATE
    if fac == 'import':
        return origin_enum.IMPORT
    import enum  # pylint: disable=import-outside-toplevel

    class OtherOrigin(enum.Enum):
        CREATE = 'Create'
        IMPORT = 'Import'
    return {'RAW:None': None, 'RAW:str': 'create', 'RAW:value': 'Create', 'RAW:int': 0,
            'RAW:other-enum-create': OtherOrigin.CREATE, 'RAW:other-enum-import': OtherOrigin.IMPORT}[fac]


def _enc_name(model, cfg):
    from dznpy.scoping import NamespaceIds, ns_ids_t  # pylint: disable=import-outside-toplevel
    ids = ns_ids_t(list(model['encapsulee']))
    if cfg.get('enc_form') == 'subclass':
        # EXTENSION: the name as an instance of a user's own (empty) subclass of NamespaceIds
        if 'UserIds' not in _USER_CLASSES:
            class UserIds(NamespaceIds):
                def tag(self):
                    return 'user'
            _USER_CLASSES['UserIds'] = UserIds
        return _USER_CLASSES['UserIds'](list(ids.items))
    return ids


def mk_configuration(model, cfg, fct=None, ports_cfg=None):
    from dznpy.adv_shell import Configuration  # pylint: disable=import-outside-toplevel
    from dznpy.adv_shell.common import FacilitiesOrigin  # pylint: disable=import-outside-toplevel
    from dznpy.scoping import ns_ids_t  # pylint: disable=import-outside-toplevel
    fct = fct if fct is not None else parse_model(model)
    prefix = ns_ids_t(cfg['prefix']) if cfg.get('prefix') else None
    return Configuration(dezyne_filename=model['file'], ast_fc=fct,
                         output_basename_suffix=cfg.get('suffix', 'Shell'),
                         fqn_encapsulee_name=_enc_name(model, cfg),
                         ports_cfg=ports_cfg if ports_cfg is not None else mk_ports_cfg(cfg),
                         facilities_origin=_origin(cfg, FacilitiesOrigin),
                         copyright=cfg.get('copyright', '(c)'),
                         support_files_ns_prefix=prefix,
                         creator_info=cfg.get('creator'),
                         verbose=bool(cfg.get('verbose', False)))


class VerboseChangesOutcome(Exception):
    """The `verbose` flag of the configuration - or building from a deep copy of the parsed model instead of the parser's
    own objects - changed the outcome of a build."""


def _build_once(model, cfg, verbose, fct=None):
    from dznpy.adv_shell import Builder  # pylint: disable=import-outside-toplevel
    with contextlib.redirect_stdout(io.StringIO()):
        res = Builder().build(mk_configuration(model, dict(cfg, verbose=verbose), fct))
    return [(f.filename, f.contents, f.hash) for f in res.files]


def build(model, cfg):
    """Returns the list of (filename, contents, hash). Unless the description fixes `verbose`, the build is done
    twice - without and with verbose logging - and both must end the same way (same files / same exception type)."""
    if 'verbose' in cfg:
        return _build_once(model, cfg, bool(cfg['verbose']))
    outcomes = []
    try:
        fct = parse_model(model)        # parsed once, shared by both builds (a build does not alter its model: C12)
    except Exception:  # pylint: disable=broad-except
        fct = None
    for verbose in (False, True):
        try:
            # IDENTITY: the second build works on a deep copy of the parsed model (equal, but no object shared with the
            # parser's result - as after copy.deepcopy / a pickle round trip / a hand-built AST)
            use = copy.deepcopy(fct) if verbose and fct is not None else fct
            outcomes.append(('OK', _build_once(model, cfg, verbose, use)))
        except Exception as exc:  # pylint: disable=broad-except
            outcomes.append(('EXC', exc))
    if 'reused-parser' in EXTRA_FORMS and fct is not None:
        for which in (0, 1):
            try:
                outcomes.append(('OK', _build_once(model, cfg, False, parse_model_reused(model, which))))
            except AssertionError:
                raise
            except Exception as exc:  # pylint: disable=broad-except
                outcomes.append(('EXC', exc))
            k0, v0 = outcomes[0]
            k2, v2 = outcomes[-1]
            if k0 != k2 or (k0 == 'OK' and v0 != v2) or (k0 == 'EXC' and type(v0) is not type(v2)):
                def show2(kind, val):
                    return 'files ' + str([f[0] for f in val]) if kind == 'OK' else f'{type(val).__name__}: {val}'
                raise VerboseChangesOutcome(f'model from a fresh parser -> {show2(k0, v0)} ; the same model from a parser instance that '
                                            f'had failed on another document before -> {show2(k2, v2)}')
        outcomes = outcomes[:2]
    (k0, v0), (k1, v1) = outcomes
    if k0 != k1 or (k0 == 'OK' and v0 != v1) or (k0 == 'EXC' and type(v0) is not type(v1)):
        def show(kind, val):
            return 'files ' + str([f[0] for f in val]) if kind == 'OK' else f'{type(val).__name__}: {val}'
        raise VerboseChangesOutcome(f'verbose=False on the parsed model -> {show(k0, v0)} ; verbose=True on a deep copy of it -> {show(k1, v1)}')
    if k0 == 'EXC':
        raise v0
    return v0


def library_error_types():
    from dznpy.adv_shell.types import AdvShellError  # pylint: disable=import-outside-toplevel
    from dznpy.ast_view import FindError  # pylint: disable=import-outside-toplevel
    from dznpy.cpp_gen import CppGenError  # pylint: disable=import-outside-toplevel
    from dznpy.json_ast import DznJsonError  # pylint: disable=import-outside-toplevel
    from dznpy.scoping import NamespaceIdsTypeError  # pylint: disable=import-outside-toplevel
    return (AdvShellError, FindError, CppGenError, DznJsonError, NamespaceIdsTypeError)


def is_library_error(exc):
    mod = type(exc).__module__ or ''
    return mod == 'dznpy' or mod.startswith('dznpy.')
