"""Deep structural snapshots of arbitrary Python object graphs (identity-insensitive, cycle-safe)."""
import enum
import types


def snap(obj, _memo=None, _depth=0):
    """A hashable, comparable structural description of obj."""
    if _memo is None:
        _memo = {}
    if obj is None or isinstance(obj, (bool, int, float, str, bytes)):
        return obj
    if isinstance(obj, enum.Enum):
        return ('enum', type(obj).__name__, obj.name)
    oid = id(obj)
    if oid in _memo:
        return ('ref', _memo[oid])
    _memo[oid] = len(_memo)
    if _depth > 60:
        return ('deep', type(obj).__name__)
    if isinstance(obj, (list, tuple)):
        return (type(obj).__name__, tuple(snap(x, _memo, _depth + 1) for x in obj))
    if isinstance(obj, (set, frozenset)):
        return ('set', tuple(sorted((snap(x, _memo, _depth + 1) for x in obj), key=repr)))
    if isinstance(obj, dict):
        return ('dict', tuple((snap(k, _memo, _depth + 1), snap(v, _memo, _depth + 1)) for k, v in obj.items()))
    if isinstance(obj, (types.FunctionType, types.BuiltinFunctionType, types.MethodType, type, types.ModuleType)):
        return ('callable', getattr(obj, '__qualname__', repr(obj)))
    if hasattr(obj, '__dict__'):
        return ('obj', type(obj).__name__,
                tuple((k, snap(v, _memo, _depth + 1)) for k, v in sorted(vars(obj).items())))
    return ('repr', type(obj).__name__, repr(obj))


def module_globals_digest(prefix='dznpy'):
    """Everything mutable that lives at module or class level in the library (and the defaults of
    its functions): a hidden cache or hoisted buffer shows up as a change of this digest."""
    import sys  # pylint: disable=import-outside-toplevel
    out = []
    for name in sorted(sys.modules):
        if name != prefix and not name.startswith(prefix + '.'):
            continue
        mod = sys.modules[name]
        if mod is None:
            continue
        for attr, val in sorted(vars(mod).items()):
            if attr.startswith('__'):
                continue
            if isinstance(val, types.ModuleType):
                continue
            if isinstance(val, types.FunctionType):
                if val.__module__ == name and (val.__defaults__ or val.__kwdefaults__):
                    out.append((name, attr, 'defaults', snap((val.__defaults__, val.__kwdefaults__))))
                continue
            if isinstance(val, type):
                if val.__module__ != name:
                    continue
                for cattr, cval in sorted(vars(val).items()):
                    if cattr.startswith('__') or callable(cval) or isinstance(cval, (property, staticmethod,
                                                                                       classmethod)):
                        if isinstance(cval, types.FunctionType) and (cval.__defaults__ or cval.__kwdefaults__):
                            out.append((name, attr, cattr, 'defaults',
                                        snap((cval.__defaults__, cval.__kwdefaults__))))
                        continue
                    if isinstance(val, type) and issubclass(val, enum.Enum):
                        continue
                    out.append((name, attr, cattr, snap(cval)))
                continue
            out.append((name, attr, snap(val)))
    return tuple(out)
