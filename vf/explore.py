"""E1 - explicit-state exploration core.

States are *recipes* (JSON-able values describing how to build the input / which operations to
replay); live objects are rebuilt from the recipe, never copied.
"""
import collections
import itertools

from .core import Partial, jhash


def bfs(initial, successors, check, canon=None, max_depth=None, part=None, budget=None):
    """Breadth-first exploration.

    initial     : list of recipes
    successors  : recipe -> iterable of recipes (one construction/operation step each)
    check       : (recipe, part) -> None  ; executes on the real implementation and reports
    canon       : recipe -> hashable ; equal canon => equal futures (argument required from caller)
    """
    part = part if part is not None else Partial()
    canon = canon or (lambda r: jhash(r))
    seen = set()
    frontier = collections.deque()
    for rec in initial:
        key = canon(rec)
        if key not in seen:
            seen.add(key)
            frontier.append((rec, 0))
    depth_done = -1
    while frontier:
        rec, depth = frontier.popleft()
        check(rec, part)
        depth_done = max(depth_done, depth)
        if max_depth is not None and depth >= max_depth:
            continue
        for nxt in successors(rec):
            part.transitions += 1
            key = canon(nxt)
            if key in seen:
                continue
            if budget is not None and len(seen) >= budget:
                part.caps.append(f'state budget {budget} hit at depth {depth + 1}')
                frontier.clear()
                break
            seen.add(key)
            frontier.append((nxt, depth + 1))
    part.states += len(seen)
    part.extra['max_depth_completed'] = max(part.extra.get('max_depth_completed', 0), depth_done)
    return part


def deviations(base: dict, dims: dict, k: int):
    """Deviation-bounded enumeration of a product space: all points that differ from `base`
    in at most k dimensions. dims maps dimension -> list of values (base value included).
    Yields (point, changed_dimension_names) with the fewest deviations first."""
    names = sorted(dims)
    for ndev in range(0, k + 1):
        for combo in itertools.combinations(names, ndev):
            alts = [[v for v in dims[n] if v != base[n]] for n in combo]
            for vals in itertools.product(*alts):
                point = dict(base)
                point.update(dict(zip(combo, vals)))
                yield point, combo


def ordered_trees(labels_leaf, labels_inner, max_nodes, max_children=3):
    """All ordered labelled trees with 1..max_nodes nodes; inner labels may have 0 children.
    A tree is (label, [children]) for inner labels and (label, None) for leaves. Each tree is
    generated exactly once (pre-order construction: new node appended on the rightmost path)."""

    def forests(n, maxlen):
        # ordered forests with exactly n nodes and at most maxlen trees
        if n == 0:
            yield []
            return
        if maxlen == 0:
            return
        for first_size in range(1, n + 1):
            for first in trees(first_size):
                for rest in forests(n - first_size, maxlen - 1):
                    yield [first] + rest

    def trees(n):
        if n == 1:
            for lab in labels_leaf:
                yield (lab, None)
        for lab in labels_inner:
            for kids in forests(n - 1, max_children):
                yield (lab, kids)

    for size in range(1, max_nodes + 1):
        yield from trees(size)
