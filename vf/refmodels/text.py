"""Reference model for text blocks (C17) - written from the property statement, independent of
dznpy.text_gen and NOT using str.splitlines()."""
import itertools

SINGLE_BREAKS = ['\n', '\r', '\x0b', '\x0c', '\x1c', '\x1d', '\x1e', '\x85',
                 '\u2028', '\u2029']
ALL_BREAK_SEQS = ['\r\n'] + SINGLE_BREAKS          # the eleven sequences Python recognises


def ref_split(s: str):
    """Pieces of s split at line breaks: a trailing break does not open a new piece;
    the empty string is one blank line."""
    if s == '':
        return ['']
    out, cur, i = [], '', 0
    while i < len(s):
        if s.startswith('\r\n', i):
            out.append(cur)
            cur = ''
            i += 2
        elif s[i] in SINGLE_BREAKS:
            out.append(cur)
            cur = ''
            i += 1
        else:
            cur += s[i]
            i += 1
    if cur != '':
        out.append(cur)
    return out


def has_break(line: str) -> bool:
    return any(c in line for c in SINGLE_BREAKS)


# ---------------------------------------------------------------------------------------------
# Encoded content values (JSON-able):
#   None                      -> None
#   {"s": "..."}              -> str
#   {"n": 0} / {"n": 1.5}     -> number
#   ["L", c1, c2, ...]        -> list
#   ["D", c1, c2, ...]        -> dict (values only matter; keys k0,k1,..)
#   ["T", c1, ...]            -> TextBlock([c1,...])           (no header)
#   ["H", c1, ...]            -> TextBlock([c1,...], header='Hdr')
# ---------------------------------------------------------------------------------------------

HEADER_TEXT = 'Hdr'


FORM = [None]      # None | 'subclass': strings / lists / dicts handed over as instances of SUBCLASSES of str / list / dict


class StrSub(str):
    """A string that is an instance of a str subclass with its own __str__/__repr__ (like a str-mixin Enum member)."""

    def __str__(self):
        return 'StrSub.MEMBER'

    def __repr__(self):
        return '<StrSub>'


class ListSub(list):
    def __repr__(self):
        return '<ListSub>'


class DictSub(dict):
    def __repr__(self):
        return '<DictSub>'


def build(enc, textblock_cls, shared=None):
    """Build a fresh Python value from the encoding. ['=', k, sub] nodes with the same k inside one build
    yield the SAME Python object (aliasing); the reference treats them like independent copies."""
    shared = {} if shared is None else shared
    if enc is None:
        return None
    if isinstance(enc, list) and enc and enc[0] == '=':
        if enc[1] not in shared:
            shared[enc[1]] = build(enc[2], textblock_cls, shared)
        return shared[enc[1]]
    if isinstance(enc, dict):
        if 's' in enc:
            # (blank strings stay plain: an Enum-like member whose value is blank is not a case worth demanding)
            return StrSub(enc['s']) if FORM[0] == 'subclass' and enc['s'].strip() and '\n' not in enc['s'][:0] else enc['s']
        return enc['n'] if 'n' in enc else enc['b']
    kind, kids = enc[0], [build(k, textblock_cls, shared) for k in enc[1:]]
    if kind == 'L':
        return ListSub(kids) if FORM[0] == 'subclass' else kids
    if kind == 'D':
        # keys in DESCENDING order: insertion order differs from sorted-key order
        val = {f'k{9 - i}': v for i, v in enumerate(kids)}
        return DictSub(val) if FORM[0] == 'subclass' else val
    if kind == 'T':
        return textblock_cls(kids)
    if kind == 'H':
        return textblock_cls(kids, header=HEADER_TEXT)
    raise ValueError(kind)


def _num_str(n):
    if isinstance(n, bool):
        return 'True' if n else 'False'
    return '0' if n == 0 and isinstance(n, int) else repr(n)


def ref_lines(enc, skip_empty=False, top=True):
    """Set of acceptable line lists (tuple of str) of the encoded content when poured into a
    text block. More than one element = the statement leaves the case open (EITHER):
    a block *with header* used as content contributes its content lines with or without
    its header lines."""
    if enc is None:
        return {()}
    if isinstance(enc, list) and enc and enc[0] == '=':
        return ref_lines(enc[2], skip_empty, top)
    if isinstance(enc, dict):
        if 's' in enc:
            if enc['s'] == '':
                return {()} if skip_empty else {('',)}
            return {tuple(ref_split(enc['s']))}
        return {(_num_str(enc['n'] if 'n' in enc else enc['b']),)}
    kind = enc[0]
    parts = [ref_lines(k, skip_empty if kind in 'LD' else False, top=False) for k in enc[1:]]
    combos = {tuple(itertools.chain.from_iterable(c)) for c in itertools.product(*parts)} \
        if parts else {()}
    if kind in 'LD':
        return combos
    if kind == 'T':
        return combos
    if kind == 'H':
        res = set()
        for c in combos:
            res.add(c)                       # content lines only
            res.add((HEADER_TEXT,) + c)      # header + content lines (its string form)
        return res
    raise ValueError(kind)


def is_blank(line: str) -> bool:
    return line.strip() == ''


def trim_ok(before, after, end_only=False):
    """after must be before[i:j]; removed lines must all be blank; the result must not start
    (unless end_only) or end with an *empty* line. Whitespace-only lines are a don't-care."""
    n = len(before)
    for i in range(n + 1):
        for j in range(i, n + 1):
            if list(before[i:j]) != list(after):
                continue
            if end_only and i != 0:
                continue
            if not all(is_blank(x) for x in before[:i]) or not all(is_blank(x) for x in before[j:]):
                continue
            if after and ((not end_only and after[0] == '') or after[-1] == ''):
                continue
            if not after:
                # everything removed: only allowed if everything was blank
                pass
            return True
    return False


def contains_empty_string(enc) -> bool:
    if enc is None:
        return False
    if isinstance(enc, list) and enc and enc[0] == '=':
        return contains_empty_string(enc[2])
    if isinstance(enc, dict):
        return enc.get('s') == ''
    return any(contains_empty_string(k) for k in enc[1:])


def only_nothing(enc) -> bool:
    """True if the content flattens to nothing at all even when empty strings count."""
    return ref_lines(enc) == {()}
