"""Reference resolver for port configurations (C03), written from the statement.

A selection is 'ALL' | 'REMAINING' | 'NONE' | [names...] (non-empty list).
resolve_side() returns ('REJECT', reason) | ('ACCEPT', mapping) | ('EITHER', reason)
"""

WILDCARDS = ('ALL', 'REMAINING', 'NONE')


def names_of(sel):
    return set() if isinstance(sel, str) else set(sel)


def nonempty(sel):
    return sel != 'NONE'


def resolve_side(side, sts, mts, exposed, injected=(), known_elsewhere=()):
    """side: 'provides' | 'requires'; exposed: port names of that side which the shell exposes;
    injected: injected requires ports (never exposed); known_elsewhere: names of ports on the
    other side (unknown for this side)."""
    exposed, injected = set(exposed), set(injected)
    ns, nm = names_of(sts), names_of(mts)
    if ns & nm:
        return 'REJECT', 'both'
    unknown = (ns | nm) - exposed - injected
    if unknown:
        return 'REJECT', 'unknown'
    if (sts == 'ALL' and mts != 'NONE') or (mts == 'ALL' and sts != 'NONE'):
        return 'REJECT', 'all+x'
    if isinstance(sts, str) and sts == mts:
        # NONE/NONE or REMAINING/REMAINING (ALL/ALL handled above)
        if exposed:
            return 'REJECT', 'equalwild'
        return 'EITHER', 'equal wildcards and nothing to assign'
    mapping = {}
    for port in sorted(exposed):
        if port in ns:
            mapping[port] = 'STS'
        elif port in nm:
            mapping[port] = 'MTS'
        elif sts in ('ALL', 'REMAINING'):
            mapping[port] = 'STS'
        elif mts in ('ALL', 'REMAINING'):
            mapping[port] = 'MTS'
        else:
            return 'REJECT', 'uncovered'
    if side == 'provides' and nonempty(sts) and nonempty(mts):
        if len(set(mapping.values())) > 1:
            return 'REJECT', 'mixed'
        return 'EITHER', 'both provides selections non-empty but no two ports differ'
    # naming an injected port is naming a port the component HAS: no reason to reject; it is never exposed and its
    # semantics (if any) does not matter
    return 'ACCEPT', mapping


def selections(universe):
    """All selections over a name universe: 3 wildcards + every non-empty subset."""
    universe = list(universe)
    out = list(WILDCARDS)
    for mask in range(1, 1 << len(universe)):
        out.append([n for i, n in enumerate(universe) if mask >> i & 1])
    return out


def subsets(names):
    names = list(names)
    return [[n for i, n in enumerate(names) if mask >> i & 1] for mask in range(1 << len(names))]
