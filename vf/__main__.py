"""CLI: python -m vf check <ID> [--tier quick|thorough] | replay <path> | validate"""
import argparse
import importlib
import json
import os
import signal
import subprocess
import sys
import traceback

from . import core

FAILURE_STAGE_PIDS = ('C02', 'C03', 'C06', 'C08', 'C09', 'C13')


def cmd_check(args) -> int:
    tier = args.tier or os.environ.get('VERIF_TIER') or 'quick'
    if tier not in ('quick', 'thorough'):
        tier = 'quick'
    try:
        seed = int(os.environ.get('VERIF_SEED', '0'))
    except ValueError:
        seed = 0
    pid = args.id.upper()
    ctx = core.Ctx(pid, tier, seed)
    limit = int(os.environ.get('VF_WATCHDOG', '1500' if tier == 'quick' else '14400'))

    def on_alarm(_sig, _frm):
        print(f'HARNESS-ERROR {pid}: watchdog of {limit}s expired (no verdict)')
        sys.stdout.flush()
        os.killpg(os.getpgid(0), signal.SIGKILL) if os.getpgid(0) == os.getpid() else os._exit(2)

    signal.signal(signal.SIGALRM, on_alarm)
    signal.alarm(limit)
    try:
        core.import_guard()
        mod = importlib.import_module(f'vf.checks.{pid.lower()}')
        mod.explore(ctx)
        if pid in FAILURE_STAGE_PIDS:
            # every generator property is also explored after histories of failed builds (vf/failhist.py); C12 runs the
            # full family itself
            from . import failhist  # pylint: disable=import-outside-toplevel
            # (the process-wide indentation override is part of the family for C08 - "the process it runs in" - and C12 only)
            failhist.explore_reduced(ctx, overrides=(None, 2) if pid == 'C08' else (None,))
        return core.finish(ctx)
    except core.HarnessError as exc:
        print(f'HARNESS-ERROR {pid}: {exc}')
        return 2
    except Exception:  # pylint: disable=broad-except
        print(f'HARNESS-ERROR {pid}: unexpected exception in the harness')
        traceback.print_exc()
        return 2


def cmd_replay(args) -> int:
    with open(args.path, encoding='utf-8') as fh:
        body = json.load(fh)
    pid = body['property']
    core.import_guard()
    mod = importlib.import_module(f'vf.checks.{pid.lower()}')
    runs = []
    for _ in range(2):
        if isinstance(body['case'], dict) and 'fs_history' in body['case']:
            from . import failhist  # pylint: disable=import-outside-toplevel
            res = failhist.judge_fs(body['case'])
        else:
            res = mod.judge(body['case'])
        runs.append(sorted([list(map(str, r[:2])) for r in res]))
    if hasattr(mod, 'cleanup_reuse'):
        mod.cleanup_reuse()
    if runs[0] != runs[1]:
        print('HARNESS-ERROR: replay not deterministic', runs)
        return 2
    if not runs[0]:
        print(f'replay {args.path}: property {pid} HOLDS on this case')
        return 0
    for key, what in runs[0]:
        print(f'replay: property={pid} key={key}\n  {what}')
    print(f'VIOLATION property={pid} replay={args.path}')
    return 1


def cmd_validate(_args) -> int:
    code = (
        "import json,sys,glob,jsonschema\n"
        "s=json.load(open('/root/.vp/EVIDENCE.schema.json'))\n"
        "bad=0\n"
        "for f in sorted(glob.glob('%s/*.json')):\n"
        "    try:\n"
        "        jsonschema.validate(json.load(open(f)), s); print('ok ', f)\n"
        "    except Exception as e:\n"
        "        bad+=1; print('BAD', f, str(e)[:300])\n"
        "m=json.load(open('%s/MANIFEST.json'))\n"
        "jsonschema.validate(m, json.load(open('/root/.vp/MANIFEST.schema.json'))); print('ok  MANIFEST')\n"
        "sys.exit(1 if bad else 0)\n" % (core.EVIDENCE_DIR, core.VERIF))
    return subprocess.call(['python3-vt', '-c', code])


def cmd_setup(_args) -> int:
    """Offline setup: nothing to download or build ahead of time; verify the tool chain."""
    os.makedirs(os.path.join(core.VERIF, '.cache'), exist_ok=True)
    os.makedirs(core.EVIDENCE_DIR, exist_ok=True)
    core.import_guard()
    for tool in (['g++', '--version'], ['clang++', '--version']):
        try:
            subprocess.run(tool, check=True, capture_output=True)
        except Exception as exc:  # pylint: disable=broad-except
            print(f'setup: {tool[0]} not usable: {exc}')
            return 1
    print('setup ok')
    return 0


def main():
    par = argparse.ArgumentParser(prog='vf')
    sub = par.add_subparsers(dest='cmd', required=True)
    chk = sub.add_parser('check')
    chk.add_argument('id')
    chk.add_argument('--tier', default=None)
    chk.set_defaults(fn=cmd_check)
    rep = sub.add_parser('replay')
    rep.add_argument('path')
    rep.set_defaults(fn=cmd_replay)
    val = sub.add_parser('validate')
    val.set_defaults(fn=cmd_validate)
    stp = sub.add_parser('setup')
    stp.set_defaults(fn=cmd_setup)
    args = par.parse_args()
    sys.stdout.reconfigure(line_buffering=True)
    sys.exit(args.fn(args))


if __name__ == '__main__':
    main()
