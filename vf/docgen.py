"""Document description language for parser checks (C05, C15, C16) - independent of dznpy.

A document is a list of nodes; a node is a JSON-able list:
  ['ns', [ids], [children]]
  ['component', name, [ports]]            ['foreign', name, [ports]]
  ['system', name, [ports], [instances], [bindings]]
  ['interface', name, [types], [events]]  types: enum / subint / ['unknowntype', cls]
  ['enum', name, [fields]]   ['subint', name, lo, hi]   ['extern', name, data]
  ['import', name]   ['filename', name]   ['unknown', cls]   ['junk', value]
  port     = [name, [type ids], 'provides'|'requires', injected(bool)]
  event    = [name, 'in'|'out', [reply ids], [formals]] ; formal = [name, [type ids], 'in'|'out'|'inout']
  instance = [name, [type ids]] ; binding = [[port, instance|None], [port, instance|None]]

Three independent printers:  to_json (what dznpy sees), expected (the reference facts),
and unparse (normal form of a dznpy FileContents) - the check compares the last two.
"""


def nid(name):
    """Identifier list of a declared name: 'X' -> ['X'] ; 'Hal.Level' -> ['Hal', 'Level'] (a declaration may carry a
    multi-identifier name: same FQN as the single name inside namespace Hal)."""
    return name.split('.') if isinstance(name, str) else list(name)


def sn(ids):
    return {'<class>': 'scope_name', 'ids': list(ids)}


def j_formals(formals):
    return {'<class>': 'formals', 'elements': [
        {'<class>': 'formal', 'name': f[0], 'type_name': sn(f[1]), 'direction': f[2]} for f in formals]}


def j_ports(ports):
    els = []
    for p in ports:
        el = {'<class>': 'port', 'name': p[0], 'type_name': sn(p[1]), 'direction': p[2],
              'formals': j_formals([])}
        if p[3]:
            el['injected?'] = 'injected'
        els.append(el)
    return {'<class>': 'ports', 'elements': els}


def j_event(ev):
    return {'<class>': 'event', 'name': ev[0], 'direction': ev[1],
            'signature': {'<class>': 'signature', 'type_name': sn(ev[2]), 'formals': j_formals(ev[3])}}


def j_endpoint(ep):
    el = {'<class>': 'end-point', 'port_name': ep[0]}
    if ep[1] is not None:
        el['instance_name'] = ep[1]
    return el


def j_node(node):
    kind = node[0]
    if kind == 'ns':
        return {'<class>': 'namespace', 'name': sn(node[1]), 'elements': [j_node(c) for c in node[2]]}
    if kind in ('component', 'foreign'):
        return {'<class>': kind, 'name': sn(nid(node[1])), 'ports': j_ports(node[2])}
    if kind == 'system':
        return {'<class>': 'system', 'name': sn(nid(node[1])), 'ports': j_ports(node[2]),
                'instances': {'<class>': 'instances', 'elements': [
                    {'<class>': 'instance', 'name': i[0], 'type_name': sn(i[1])} for i in node[3]]},
                'bindings': {'<class>': 'bindings', 'elements': [
                    {'<class>': 'binding', 'left': j_endpoint(b[0]), 'right': j_endpoint(b[1])}
                    for b in node[4]]}}
    if kind == 'interface':
        return {'<class>': 'interface', 'name': sn(nid(node[1])),
                'types': {'<class>': 'types', 'elements': [j_node(t) for t in node[2]]},
                'events': {'<class>': 'events', 'elements': [j_event(e) for e in node[3]]}}
    if kind == 'enum':
        return {'<class>': 'enum', 'name': sn(nid(node[1])),
                'fields': {'<class>': 'fields', 'elements': list(node[2])}}
    if kind == 'subint':
        return {'<class>': 'subint', 'name': sn(nid(node[1])),
                'range': {'<class>': 'range', 'from': node[2], 'to': node[3]}}
    if kind == 'extern':
        return {'<class>': 'extern', 'name': sn(nid(node[1])), 'value': {'<class>': 'data', 'value': node[2]}}
    if kind == 'import':
        return {'<class>': 'import', 'name': node[1]}
    if kind == 'filename':
        return {'<class>': 'file-name', 'name': node[1]}
    if kind in ('unknown', 'unknowntype'):
        return {'<class>': node[1], 'name': sn(['Q']), 'elements': [], 'x': 1}
    if kind == 'junk':
        return node[1]
    raise ValueError(kind)


def to_json(doc, comment=None, form=None):
    """form: None = keys in the usual order; 'reversed' = every object with its keys in reverse order ('<class>' last);
    'extra' = every object additionally carries the keys real Dezyne emits and the parser ignores ('location', ...);
    'reversed+extra' = both."""
    root = {'<class>': 'root', 'elements': [j_node(n) for n in doc], 'working-directory': '/wd'}
    if comment is not None:
        root['comment'] = {'<class>': 'comment', 'string': comment}
    if form:
        root = reshape(root, 'reversed' in form, 'extra' in form)
    return root


def reshape(value, reverse, extra):
    if isinstance(value, list):
        return [reshape(v, reverse, extra) for v in value]
    if isinstance(value, dict):
        items = [(k, reshape(v, reverse, extra)) for k, v in value.items()]
        if extra:
            items = [('location', {'<class>': 'location', 'file-name': 'x.dzn', 'line': 1, 'column': 2, 'end': {'line': 3},
                                   'offset': 0, 'length': 10})] + items + \
                    [('unknown-metadata', [1, 'two', None]), ('elements-count', 3)]
        if reverse:
            items = list(reversed(items))
        return dict(items)
    return value


# ---------------------------------------------------------------------------------------------
# expected facts
# ---------------------------------------------------------------------------------------------

CONTAINERS = ['components', 'enums', 'externs', 'filenames', 'foreigns', 'imports', 'interfaces',
              'subints', 'systems']


def _ports(ports):
    return [[p[0], list(p[1]), p[2], bool(p[3])] for p in ports]


def _events(events):
    return [[e[0], e[1], list(e[2]), [[f[0], list(f[1]), f[2]] for f in e[3]]] for e in events]


def expected(doc):
    """Reference: every declaration with FQN = enclosing namespace ids + name, payload in source
    order, nested enums/subints hoisted at the position of their interface."""
    out = {c: [] for c in CONTAINERS}

    def walk(nodes, scope):
        for node in nodes:
            kind = node[0]
            if kind == 'ns':
                walk(node[2], scope + list(node[1]))
            elif kind in ('component', 'foreign'):
                out[kind + 's'].append({'fqn': scope + nid(node[1]), 'scope': scope, 'name': nid(node[1]),
                                        'ports': _ports(node[2])})
            elif kind == 'system':
                out['systems'].append({'fqn': scope + nid(node[1]), 'scope': scope, 'name': nid(node[1]),
                                       'ports': _ports(node[2]),
                                       'instances': [[i[0], list(i[1])] for i in node[3]],
                                       'bindings': [[[b[0][0], b[0][1]], [b[1][0], b[1][1]]]
                                                    for b in node[4]]})
            elif kind == 'interface':
                inner = scope + nid(node[1])
                types = []
                for typ in node[2]:
                    if typ[0] == 'enum':
                        rec = {'fqn': inner + [typ[1]], 'scope': inner, 'name': [typ[1]],
                               'fields': list(typ[2])}
                        out['enums'].append(rec)
                        types.append(['enum', rec])
                    elif typ[0] == 'subint':
                        rec = {'fqn': inner + [typ[1]], 'scope': inner, 'name': [typ[1]],
                               'range': [typ[2], typ[3]]}
                        out['subints'].append(rec)
                        types.append(['subint', rec])
                out['interfaces'].append({'fqn': inner, 'scope': scope, 'name': nid(node[1]), 'trail': inner,
                                          'types': types, 'events': _events(node[3])})
            elif kind == 'enum':
                out['enums'].append({'fqn': scope + nid(node[1]), 'scope': scope, 'name': nid(node[1]),
                                     'fields': list(node[2])})
            elif kind == 'subint':
                out['subints'].append({'fqn': scope + nid(node[1]), 'scope': scope, 'name': nid(node[1]),
                                       'range': [node[2], node[3]]})
            elif kind == 'extern':
                out['externs'].append({'fqn': scope + nid(node[1]), 'scope': scope, 'name': nid(node[1]),
                                       'data': node[2]})
            elif kind == 'import':
                out['imports'].append({'name': node[1]})
            elif kind == 'filename':
                out['filenames'].append({'name': node[1]})
            # unknown / junk: nothing

    walk(doc, [])
    return out


# ---------------------------------------------------------------------------------------------
# un-parser of a dznpy FileContents (uses only attribute access, no dznpy helper functions)
# ---------------------------------------------------------------------------------------------

def _ids(nsids):
    return list(nsids.items)


def _tree_fqn(tree):
    """Walk a NamespaceTree upwards by hand (not through its fqn property)."""
    parts = []
    node = tree
    guard = 0
    while node is not None and guard < 64:
        if node.scope_name is not None:
            parts = list(node.scope_name.items) + parts
        node = node.parent
        guard += 1
    return parts


def _u_ports(ports):
    return [[p.name, _ids(p.type_name.value), {'Provides': 'provides', 'Requires': 'requires'}[p.direction.value],
             p.injected.value] for p in ports.elements]


def _u_common(el):
    res = {'fqn': _ids(el.fqn), 'scope': _tree_fqn(el.parent_ns), 'name': _ids(el.name.value)}
    # the library's own view of the scope must agree with the hand walk
    if _ids(el.parent_ns.fqn) != res['scope']:
        res['scope'] = ['<parent_ns.fqn disagrees>', _ids(el.parent_ns.fqn), res['scope']]
    return res


def _u_enum(el):
    res = _u_common(el)
    res['fields'] = list(el.fields.elements)
    return res


def _u_subint(el):
    res = _u_common(el)
    res['range'] = [el.range.from_int, el.range.to_int]
    return res


def _u_events(events):
    dirs = {'In': 'in', 'Out': 'out', 'InOut': 'inout'}
    return [[e.name, dirs[e.direction.value], _ids(e.signature.type_name.value),
             [[f.name, _ids(f.type_name.value), dirs[f.direction.value]]
              for f in e.signature.formals.elements]] for e in events.elements]


def unparse(fct):
    out = {c: [] for c in CONTAINERS}
    for kind in ('components', 'foreigns'):
        for el in getattr(fct, kind):
            res = _u_common(el)
            res['ports'] = _u_ports(el.ports)
            out[kind].append(res)
    for el in fct.systems:
        res = _u_common(el)
        res['ports'] = _u_ports(el.ports)
        res['instances'] = [[i.name, _ids(i.type_name.value)] for i in el.instances.elements]
        res['bindings'] = [[[b.left.port_name, b.left.instance_name],
                            [b.right.port_name, b.right.instance_name]] for b in el.bindings.elements]
        out['systems'].append(res)
    for el in fct.interfaces:
        res = _u_common(el)
        res['trail'] = _tree_fqn(el.ns_trail)
        types = []
        for typ in el.types.elements:
            cls = type(typ).__name__
            if cls == 'Enum':
                types.append(['enum', _u_enum(typ)])
            elif cls == 'SubInt':
                types.append(['subint', _u_subint(typ)])
            else:
                types.append(['?' + cls])
        res['types'] = types
        res['events'] = _u_events(el.events)
        out['interfaces'].append(res)
    for el in fct.enums:
        out['enums'].append(_u_enum(el))
    for el in fct.subints:
        out['subints'].append(_u_subint(el))
    for el in fct.externs:
        res = _u_common(el)
        res['data'] = el.value.value
        out['externs'].append(res)
    for el in fct.imports:
        out['imports'].append({'name': el.name})
    for el in fct.filenames:
        out['filenames'].append({'name': el.name})
    return out


def first_difference(want, got):
    for cont in CONTAINERS:
        if want[cont] != got[cont]:
            if len(want[cont]) != len(got[cont]):
                return cont, f'{cont}: {len(want[cont])} expected, {len(got[cont])} found'
            for i, (a, b) in enumerate(zip(want[cont], got[cont])):
                if a != b:
                    return cont, f'{cont}[{i}]: expected {a} found {b}'
    return None, ''
