#ifndef DZN_PUMP_HH
#define DZN_PUMP_HH
// Threaded pump (real mutex/condvar/thread) for the free-running ThreadSanitizer pass.
#include <condition_variable>
#include <deque>
#include <functional>
#include <future>
#include <mutex>
#include <thread>
#include <type_traits>
namespace dzn {
struct pump {
  std::deque<std::function<void()>> q; bool stop = false; bool in_dispatch = false; std::mutex m; std::condition_variable cv; std::thread th;
  pump() : th([this] { worker(); }) {}
  pump(const pump&) = delete; pump& operator=(const pump&) = delete;
  ~pump() { { std::lock_guard<std::mutex> l(m); stop = true; } cv.notify_all(); th.join(); }
  void operator()(const std::function<void()>& f) { { std::lock_guard<std::mutex> l(m); q.push_back(f); } cv.notify_all(); }
  void worker() { for (;;) { std::function<void()> f; { std::unique_lock<std::mutex> l(m); cv.wait(l, [this] { return !q.empty() || stop; }); if (q.empty()) return; f = std::move(q.front()); q.pop_front(); } f(); } }
};
template <typename L, typename = typename std::enable_if<std::is_void<decltype(std::declval<L>()())>::value>::type>
void shell(pump& p, L&& l) { std::promise<void> pr; p([&] { l(); pr.set_value(); }); pr.get_future().get(); }
template <typename L, typename = typename std::enable_if<!std::is_void<decltype(std::declval<L>()())>::value>::type>
auto shell(pump& p, L&& l) -> decltype(l()) { std::promise<decltype(l())> pr; p([&] { pr.set_value(l()); }); return pr.get_future().get(); }
}
#endif
