#ifndef DZN_PUMP_HH
#define DZN_PUMP_HH
// Scheduled pump: a worker thread under the E3 scheduler executes posted closures; shell() blocks
// the caller (modelled as a blocking wait on a predicate, never as spinning).
#include <functional>
#include <deque>
#include <type_traits>
#include "sched.hh"
namespace dzn {
struct pump {
  std::deque<std::function<void()>> q; bool stop = false; bool in_dispatch = false; unsigned long posted = 0, executed = 0;
  pump() {} pump(const pump&) = delete; pump& operator=(const pump&) = delete;
  void operator()(const std::function<void()>& f) { sched::point("pump.post"); ++posted; q.push_back(f); }
  void worker() { for (;;) { sched::wait_until([this] { return !q.empty() || stop; }, "pump.wait"); if (q.empty()) break; auto f = std::move(q.front()); q.pop_front(); in_dispatch = true; f(); in_dispatch = false; ++executed; } }
};
template <typename L, typename = typename std::enable_if<std::is_void<decltype(std::declval<L>()())>::value>::type>
void shell(pump& p, L&& l) { bool done = false; p([&] { l(); done = true; }); sched::wait_until([&] { return done; }, "shell.wait"); }
template <typename L, typename = typename std::enable_if<!std::is_void<decltype(std::declval<L>()())>::value>::type>
auto shell(pump& p, L&& l) -> decltype(l()) { decltype(l()) r{}; bool done = false; p([&] { r = l(); done = true; }); sched::wait_until([&] { return done; }, "shell.wait"); return r; }
}
#endif
