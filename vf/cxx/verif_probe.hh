// Lab probes shared by the mock "dzn code" headers and the drivers.
#ifndef VERIF_PROBE_HH
#define VERIF_PROBE_HH
#include <cstdio>
#include <cstring>
#include <string>
#include <vector>
namespace dzn { struct pump; struct runtime; struct locator; }
namespace verif {
struct Registry {
  void* component = nullptr; const dzn::locator* locator = nullptr; dzn::pump* pump = nullptr; dzn::runtime* runtime = nullptr;
  int constructions = 0;
  void note_component(void* c, const dzn::locator* l, dzn::pump* p, dzn::runtime* r) { component = c; locator = l; pump = p; runtime = r; ++constructions; }
  void reset() { component = nullptr; locator = nullptr; pump = nullptr; runtime = nullptr; }
};
inline Registry& registry() { static Registry r; return r; }
// every extern data type of a lab model is a distinct, non-convertible struct
#define VERIF_DATA_TYPE(NAME) struct NAME { int v; explicit NAME(int x = 0) : v(x) {} bool operator==(const NAME& o) const { return v == o.v; } }
// class templates behind the 'exotic' extern spellings: verif::Pair<int, long>, verif::Fn<void(int)>, ::verif::Num<-1>
template <class A, class B> struct Pair { int v; explicit Pair(int x = 0) : v(x) {} bool operator==(const Pair& o) const { return v == o.v; } };
template <class Sig> struct Fn { int v; explicit Fn(int x = 0) : v(x) {} bool operator==(const Fn& o) const { return v == o.v; } };
template <int N> struct Num { int v; explicit Num(int x = 0) : v(x) {} bool operator==(const Num& o) const { return v == o.v; } };
struct Service { int id = 4711; };
// hit log
struct Hits {
  std::vector<std::string> log; std::vector<long> args; bool in_dispatch = false; unsigned long posted_at_call = 0;
  void reset() { log.clear(); args.clear(); in_dispatch = false; posted_at_call = 0; }
  void hit(const std::string& s) { log.push_back(s); }
  std::string joined() const { std::string r; for (auto& s : log) { if (!r.empty()) r += ","; r += s; } return r; }
};
inline std::string jescape(const std::string& s) { std::string r; for (char c : s) { if (c == '"' || c == '\\') { r += '\\'; r += c; } else if (c == '\n') r += "\\n"; else if ((unsigned char)c < 0x20) r += '?'; else r += c; } return r; }
inline void emit(const char* prop, const std::string& group, const std::string& subject, bool ok, const std::string& detail) {
  std::printf("{\"prop\":\"%s\",\"group\":\"%s\",\"subject\":\"%s\",\"ok\":%s,\"detail\":\"%s\"}\n", prop, jescape(group).c_str(), jescape(subject).c_str(), ok ? "true" : "false", jescape(detail).c_str());
}
// overwrite a good part of the stack below the caller (dead frames of returned calls)
__attribute__((noinline)) inline void scrub_stack() { volatile char buf[8192]; for (unsigned i = 0; i < sizeof(buf); ++i) buf[i] = (char)0xA5; (void)buf[17]; }
}
#endif
