// E3 - cooperative deterministic scheduler + stateless DFS explorer (iterative preemption bounding)
// for real std::threads of compiled C++ code. Exactly one managed thread runs at a time (semaphore
// baton). Scheduling points: every pthread mutex acquire/release (link-time interposition, see
// sched_interpose.cc), every explicit sched::point(), every blocking wait (sched::wait_until).
#pragma once
#include <atomic>
#include <cstdio>
#include <cstdlib>
#include <functional>
#include <map>
#include <memory>
#include <set>
#include <sstream>
#include <string>
#include <thread>
#include <vector>
#include <pthread.h>
#include <semaphore.h>
namespace sched {
struct Point { int running; bool running_enabled; std::vector<int> enabled; int chosen_idx; const char* what; };
struct T { int id; std::thread th; sem_t sem; bool done = false; pthread_mutex_t* want = nullptr; std::function<bool()> pred; std::string name; };
struct World {
  std::vector<T*> ts; std::map<pthread_mutex_t*, int> owner; int cur = -1;
  struct RW { int writer = -1; int readers = 0; }; std::map<pthread_rwlock_t*, RW> rw;   // reader/writer locks (std::shared_mutex)
  std::vector<int> prefix; std::vector<Point> points; bool deadlock = false; bool horizon = false; bool diverged = false;
  sem_t main_sem; bool active = false; size_t max_points = 20000; std::string stuck;
};
extern World* W;
extern thread_local T* self;
inline bool managed() { return W && W->active && self; }
inline bool enabled(T* t) {
  if (t->done) return false;
  if (t->want) return W->owner.find(t->want) == W->owner.end();
  if (t->pred) return t->pred();
  return true;
}
inline void finish_execution(bool self_alive) {
  W->active = false; sem_post(&W->main_sem);
  if (self_alive) { sem_wait(&self->sem); }   // parked forever (execution abandoned: deadlock/horizon)
}
// choose the next thread to run; called by the running thread at a scheduling point or when it exits
inline void reschedule(const char* what, bool self_alive) {
  std::vector<int> en; bool self_en = false;
  if (self_alive && enabled(self)) { en.push_back(self->id); self_en = true; }   // canonical order: running thread first
  for (auto* t : W->ts) if (!(self_alive && t == self) && enabled(t)) en.push_back(t->id);
  if (en.empty()) {
    bool all_done = true; for (auto* t : W->ts) if (!t->done) all_done = false;
    if (!all_done) { W->deadlock = true; std::ostringstream os; for (auto* t : W->ts) if (!t->done) os << t->name << (t->want ? "(blocked on mutex) " : t->pred ? "(waiting) " : "(?) "); W->stuck = os.str(); }
    finish_execution(self_alive); return;
  }
  size_t i = W->points.size(); int idx = 0;
  if (i >= W->max_points) { W->horizon = true; finish_execution(self_alive); return; }
  if (i < W->prefix.size()) { idx = W->prefix[i]; if (idx >= (int)en.size()) { W->diverged = true; finish_execution(self_alive); return; } }
  W->points.push_back(Point{self_alive ? self->id : -1, self_en, en, idx, what});
  int nxt = en[idx]; W->cur = nxt;
  if (self_alive && nxt == self->id) return;
  T* me = self; sem_post(&W->ts[nxt]->sem); if (self_alive) sem_wait(&me->sem);
}
inline void point(const char* what) { if (managed()) reschedule(what, true); }
inline void wait_until(std::function<bool()> p, const char* what) {
  if (!managed()) { while (!p()) std::this_thread::yield(); return; }
  self->pred = p; reschedule(what, true); self->pred = nullptr;
}
inline void mlock(pthread_mutex_t* m) {
  reschedule("lock", true);
  while (W->active && W->owner.count(m)) { self->want = m; reschedule("blocked", true); }
  self->want = nullptr; W->owner[m] = self->id;
}
inline bool mtrylock(pthread_mutex_t* m) { reschedule("trylock", true); if (W->owner.count(m)) return false; W->owner[m] = self->id; return true; }
inline void munlock(pthread_mutex_t* m) { W->owner.erase(m); reschedule("unlock", true); }
// reader/writer locks: any number of readers or one writer; no fairness assumed (a waiting writer does not block new readers)
inline void rw_rdlock(pthread_rwlock_t* l) {
  reschedule("rdlock", true);
  while (W->active && W->rw[l].writer >= 0) { self->pred = [l] { return W->rw[l].writer < 0; }; reschedule("blocked-rd", true); self->pred = nullptr; }
  W->rw[l].readers++;
}
inline void rw_wrlock(pthread_rwlock_t* l) {
  reschedule("wrlock", true);
  while (W->active && (W->rw[l].writer >= 0 || W->rw[l].readers > 0)) { self->pred = [l] { return W->rw[l].writer < 0 && W->rw[l].readers == 0; }; reschedule("blocked-wr", true); self->pred = nullptr; }
  W->rw[l].writer = self->id;
}
inline bool rw_tryrdlock(pthread_rwlock_t* l) { reschedule("tryrdlock", true); if (W->rw[l].writer >= 0) return false; W->rw[l].readers++; return true; }
inline bool rw_trywrlock(pthread_rwlock_t* l) { reschedule("trywrlock", true); if (W->rw[l].writer >= 0 || W->rw[l].readers > 0) return false; W->rw[l].writer = self->id; return true; }
inline void rw_unlock(pthread_rwlock_t* l) { auto& st = W->rw[l]; if (st.writer == self->id) st.writer = -1; else if (st.readers > 0) st.readers--; reschedule("rwunlock", true); }
inline int spawn(const std::string& name, std::function<void()> body) {
  T* t = new T; t->id = (int)W->ts.size(); t->name = name; sem_init(&t->sem, 0, 0); W->ts.push_back(t);
  t->th = std::thread([t, body] { self = t; sem_wait(&t->sem); if (W && W->active) body(); t->done = true; if (W && W->active) reschedule("exit", false); });
  return t->id;
}
// run one execution with the given choice prefix; setup() spawns the managed threads
inline void run(World& w, std::function<void()> setup) {
  W = &w; sem_init(&w.main_sem, 0, 0); self = nullptr; setup(); w.active = true;
  { std::vector<int> en; for (auto* t : w.ts) if (enabled(t)) en.push_back(t->id);
    size_t i = w.points.size(); int idx = i < w.prefix.size() ? w.prefix[i] : 0;
    if (en.empty() || idx >= (int)en.size()) { w.diverged = !en.empty(); w.active = false; }
    else { w.points.push_back(Point{-1, false, en, idx, "start"}); w.cur = en[idx]; sem_post(&w.ts[en[idx]]->sem); sem_wait(&w.main_sem); } }
  bool clean = !w.deadlock && !w.horizon && !w.diverged;
  if (clean) { for (auto* t : w.ts) { t->th.join(); delete t; } }
  else { for (auto* t : w.ts) { t->th.detach(); } }   // abandoned execution: threads stay parked, fixture is leaked
  W = nullptr;
}

// ---- explorer -----------------------------------------------------------------------------
struct Result { long executions = 0, violations = 0, deadlocks = 0, horizons = 0; std::map<std::string, long> outcomes; std::string first_violation; std::vector<int> first_schedule; bool diverged = false; long max_points = 0; long total_points = 0; std::vector<std::vector<int>> spawned; };
struct Execution { std::string outcome; std::string violation; };   // filled by the harness body
// body(world) runs ONE execution (constructs a fresh fixture, calls sched::run) and reports.
// split_depth > 0: alternatives at choice positions < split_depth are not explored here but reported in
// res.spawned (sub-tree roots for other worker processes); everything deeper is explored locally.
inline void explore(int bound, const std::vector<int>& root, std::function<Execution(World&)> body, Result& res, long cap = -1, size_t split_depth = 0) {
  std::vector<std::vector<int>> stack{root};
  while (!stack.empty()) {
    // work sharing: after `cap` executions the unexplored sub-trees are handed back to the caller
    if (cap >= 0 && res.executions >= cap) { for (auto& p : stack) res.spawned.push_back(p); stack.clear(); break; }
    auto prefix = stack.back(); stack.pop_back();
    World w; w.prefix = prefix;
    Execution ex = body(w);
    res.executions++; res.max_points = std::max<long>(res.max_points, (long)w.points.size()); res.total_points += (long)w.points.size();
    if (w.diverged) { res.diverged = true; return; }
    if (w.deadlock) { res.deadlocks++; ex.violation = "deadlock: " + w.stuck + ex.violation; ex.outcome += " DEADLOCK"; }
    if (w.horizon) { res.horizons++; ex.violation = "horizon exceeded (livelock?) " + ex.violation; ex.outcome += " HORIZON"; }
    res.outcomes[ex.outcome]++;
    if (!ex.violation.empty()) { if (res.violations++ == 0) { res.first_violation = ex.violation; for (auto& p : w.points) res.first_schedule.push_back(p.chosen_idx); } }
    std::vector<int> chosen; for (auto& p : w.points) chosen.push_back(p.chosen_idx);
    std::vector<int> pre(w.points.size() + 1, 0);
    for (size_t i = 0; i < w.points.size(); ++i) pre[i + 1] = pre[i] + ((w.points[i].running_enabled && w.points[i].chosen_idx != 0) ? 1 : 0);
    for (size_t i = prefix.size(); i < w.points.size(); ++i) {
      auto& p = w.points[i]; int cost = pre[i] + (p.running_enabled ? 1 : 0);   // switching away from a runnable thread = preemption
      if (bound >= 0 && cost > bound) continue;
      for (size_t alt = 1; alt < p.enabled.size(); ++alt) { std::vector<int> np(chosen.begin(), chosen.begin() + i); np.push_back((int)alt); if (i < split_depth) res.spawned.push_back(np); else stack.push_back(np); }
    }
  }
}
inline std::string json_escape(const std::string& s) { std::string r; for (char c : s) { if (c == '"' || c == '\\') { r += '\\'; r += c; } else if ((unsigned char)c < 0x20) r += ' '; else r += c; } return r; }
inline void print_result(const char* harness, int bound, const Result& r, bool complete) {
  std::printf("{\"harness\":\"%s\",\"bound\":%d,\"complete\":%s,\"executions\":%ld,\"violations\":%ld,\"deadlocks\":%ld,\"horizons\":%ld,\"diverged\":%s,\"max_points\":%ld,\"total_points\":%ld,\"outcomes\":{",
              harness, bound, complete ? "true" : "false", r.executions, r.violations, r.deadlocks, r.horizons, r.diverged ? "true" : "false", r.max_points, r.total_points);
  bool first = true; for (auto& kv : r.outcomes) { std::printf("%s\"%s\":%ld", first ? "" : ",", json_escape(kv.first).c_str(), kv.second); first = false; }
  std::printf("},\"first_violation\":\"%s\",\"first_schedule\":[", json_escape(r.first_violation).c_str());
  for (size_t i = 0; i < r.first_schedule.size(); ++i) std::printf("%s%d", i ? "," : "", r.first_schedule[i]);
  std::printf("],\"spawned\":[");
  for (size_t k = 0; k < r.spawned.size(); ++k) { std::printf("%s[", k ? "," : ""); for (size_t i = 0; i < r.spawned[k].size(); ++i) std::printf("%s%d", i ? "," : "", r.spawned[k][i]); std::printf("]"); }
  std::printf("]}\n");
}
}
