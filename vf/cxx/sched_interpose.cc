// Link-time interposition: std::mutex / std::unique_lock in the generated headers end up here.
#include "sched.hh"
#include <dlfcn.h>
namespace sched { World* W = nullptr; thread_local T* self = nullptr; }
extern "C" int pthread_mutex_lock(pthread_mutex_t* m) {
  static auto real = (int (*)(pthread_mutex_t*))dlsym(RTLD_NEXT, "pthread_mutex_lock");
  if (sched::managed()) { sched::mlock(m); return 0; }
  return real(m);
}
extern "C" int pthread_mutex_trylock(pthread_mutex_t* m) {
  static auto real = (int (*)(pthread_mutex_t*))dlsym(RTLD_NEXT, "pthread_mutex_trylock");
  if (sched::managed()) return sched::mtrylock(m) ? 0 : 16 /*EBUSY*/;
  return real(m);
}
extern "C" int pthread_mutex_unlock(pthread_mutex_t* m) {
  static auto real = (int (*)(pthread_mutex_t*))dlsym(RTLD_NEXT, "pthread_mutex_unlock");
  if (sched::managed()) { sched::munlock(m); return 0; }
  return real(m);
}
static void unsupported(const char* what) { std::fprintf(stderr, "SCHED-UNSUPPORTED: managed thread called %s (not modelled)\n", what); std::_Exit(2); }
extern "C" int pthread_cond_wait(pthread_cond_t* c, pthread_mutex_t* m) {
  static auto real = (int (*)(pthread_cond_t*, pthread_mutex_t*))dlsym(RTLD_NEXT, "pthread_cond_wait");
  if (sched::managed()) unsupported("pthread_cond_wait");
  return real(c, m);
}
extern "C" int pthread_rwlock_wrlock(pthread_rwlock_t* l) {
  static auto real = (int (*)(pthread_rwlock_t*))dlsym(RTLD_NEXT, "pthread_rwlock_wrlock");
  if (sched::managed()) { sched::rw_wrlock(l); return 0; }
  return real(l);
}
extern "C" int pthread_rwlock_rdlock(pthread_rwlock_t* l) {
  static auto real = (int (*)(pthread_rwlock_t*))dlsym(RTLD_NEXT, "pthread_rwlock_rdlock");
  if (sched::managed()) { sched::rw_rdlock(l); return 0; }
  return real(l);
}
extern "C" int pthread_rwlock_trywrlock(pthread_rwlock_t* l) {
  static auto real = (int (*)(pthread_rwlock_t*))dlsym(RTLD_NEXT, "pthread_rwlock_trywrlock");
  if (sched::managed()) return sched::rw_trywrlock(l) ? 0 : 16;
  return real(l);
}
extern "C" int pthread_rwlock_tryrdlock(pthread_rwlock_t* l) {
  static auto real = (int (*)(pthread_rwlock_t*))dlsym(RTLD_NEXT, "pthread_rwlock_tryrdlock");
  if (sched::managed()) return sched::rw_tryrdlock(l) ? 0 : 16;
  return real(l);
}
extern "C" int pthread_rwlock_unlock(pthread_rwlock_t* l) {
  static auto real = (int (*)(pthread_rwlock_t*))dlsym(RTLD_NEXT, "pthread_rwlock_unlock");
  if (sched::managed()) { sched::rw_unlock(l); return 0; }
  return real(l);
}
