// Mock of the Dezyne C++ runtime API surface used by dznpy-generated code (trusted base of the lab).
#ifndef DZN_META_HH
#define DZN_META_HH
#include <algorithm>
#include <functional>
#include <map>
#include <stdexcept>
#include <string>
#include <vector>
namespace dzn {
struct meta;
struct component;
namespace port {
struct meta {
  struct { std::string name; const void* port; const dzn::component* component; const dzn::meta* meta; } provide;
  struct { std::string name; const void* port; const dzn::component* component; const dzn::meta* meta; } require;
};
}
struct meta {
  std::string name; std::string type; const meta* parent = nullptr;
  std::vector<const port::meta*> require; std::vector<const meta*> children; std::vector<std::function<void()>> ports_connected;
};
struct component { virtual ~component() {} };
struct binding_error : public std::runtime_error {
  binding_error(const port::meta& m, const std::string& msg) : std::runtime_error("not connected: " + m.provide.name + "." + m.require.name + "." + msg) {}
};
}
#endif
