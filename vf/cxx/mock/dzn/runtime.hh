#ifndef DZN_RUNTIME_HH
#define DZN_RUNTIME_HH
#include <dzn/meta.hh>
#include <dzn/locator.hh>
namespace dzn { struct runtime { runtime() {} runtime(const runtime&) = delete; runtime& operator=(const runtime&) = delete; }; }
#endif
