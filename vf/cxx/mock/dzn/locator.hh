#ifndef DZN_LOCATOR_HH
#define DZN_LOCATOR_HH
#include <map>
#include <string>
#include <typeinfo>
#include <stdexcept>
namespace dzn {
// Permissive mock: copyable and movable (the real one may be stricter); wrong sharing/copying is
// caught by identity assertions in the drivers, never by this header.
struct locator {
  typedef std::pair<std::string,std::string> Key;
  std::map<Key, const void*> services;
  locator() {}
  locator clone() const { locator l; l.services = services; return l; }
  template <typename T> locator& set(T& t, const std::string& key = "") { services[Key(typeid(T).name(), key)] = &t; return *this; }
  template <typename T> T* try_get(const std::string& key = "") const {
    auto it = services.find(Key(typeid(T).name(), key)); return it == services.end() ? nullptr : const_cast<T*>(static_cast<const T*>(it->second)); }
  template <typename T> T& get(const std::string& key = "") const { T* t = try_get<T>(key); if (!t) throw std::runtime_error(std::string("<") + typeid(T).name() + ",\"" + key + "\"> not available"); return *t; }
};
}
#endif
