#ifndef DZN_PUMP_HH
#define DZN_PUMP_HH
#include <functional>
#include <deque>
#include <type_traits>
namespace dzn {
// Step pump: deterministic, single-threaded, manually stepped. shell() = post + drain.
struct pump {
  std::deque<std::function<void()>> q; bool in_dispatch = false; unsigned long posted = 0, executed = 0;
  pump() {} pump(const pump&) = delete; pump& operator=(const pump&) = delete;
  void operator()(const std::function<void()>& f) { ++posted; q.push_back(f); }
  void step() { auto f = std::move(q.front()); q.pop_front(); bool was = in_dispatch; in_dispatch = true; f(); in_dispatch = was; ++executed; }
  void drain() { while (!q.empty()) step(); }
};
template <typename L, typename = typename std::enable_if<std::is_void<decltype(std::declval<L>()())>::value>::type>
void shell(pump& p, L&& l) { p([&]{ l(); }); p.drain(); }
template <typename L, typename = typename std::enable_if<!std::is_void<decltype(std::declval<L>()())>::value>::type>
auto shell(pump& p, L&& l) -> decltype(l()) { decltype(l()) r{}; p([&]{ r = l(); }); p.drain(); return r; }
}
#endif
