"""Shared runner machinery: import guard, counters, violations, known findings, evidence."""
import collections
import hashlib
import json
import os
import pickle
import shutil
import signal
import sys
import tempfile
import time
import traceback

sys.dont_write_bytecode = True

VERIF = os.path.dirname(os.path.dirname(os.path.abspath(__file__)))
REPO = os.environ.get('VF_REPO', '/repo')
REPO_SRC = os.path.join(REPO, 'src')
# runs against a scratch copy (VF_REPO set, used for seeded-change experiments) never touch the
# evidence of the real tree
_ALT = REPO != '/repo'
EVIDENCE_DIR = os.path.join('/tmp/vf_alt', 'evidence') if _ALT else os.path.join(VERIF, 'evidence')
REPLAY_DIR = os.path.join('/tmp/vf_alt', 'replays') if _ALT else os.path.join(VERIF, 'replays')
KNOWN_FILE = os.path.join(VERIF, 'known_findings.json')
NCPU = int(os.environ.get('VF_JOBS', '0')) or min(16, os.cpu_count() or 1)


class HarnessError(Exception):
    """The harness itself could not run (exit 2, no verdict)."""


def import_guard():
    """Make `import dznpy` resolve to /repo/src (NOT the wheel in site-packages) or abort."""
    if sys.path[0] != REPO_SRC:
        sys.path.insert(0, REPO_SRC)
    for name in [m for m in sys.modules if m == 'dznpy' or m.startswith('dznpy.')]:
        mod = sys.modules[name]
        if not getattr(mod, '__file__', REPO_SRC).startswith(REPO_SRC):
            del sys.modules[name]
    import dznpy  # pylint: disable=import-outside-toplevel
    if not os.path.abspath(dznpy.__file__).startswith(REPO_SRC + os.sep):
        raise HarnessError(f'dznpy imported from {dznpy.__file__}, expected under {REPO_SRC}')
    return dznpy


def jhash(obj) -> str:
    return hashlib.sha256(json.dumps(obj, sort_keys=True, default=repr).encode()).hexdigest()[:16]


class Partial:
    """Mergeable coverage counters; workers return one, the parent merges them."""
    MAX_VIOL = 40
    MAX_SAMPLES = 6

    def __init__(self):
        self.evaluations = 0          # cases executed on the real implementation
        self.transitions = 0          # generator / construction / operation / scheduling steps
        self.states = 0               # distinct canonical cases or states (filled by explorer)
        self.nontrivial = 0           # cases on which the oracle actually constrained the result
        self.outcomes = collections.Counter()
        self.violations = {}          # key -> (what, case)   smallest case kept
        self.nviol = 0
        self.samples = []
        self.extra = collections.Counter()
        self.caps = []

    def outcome(self, label):
        self.outcomes[str(label)] += 1

    def sample(self, case):
        if len(self.samples) < self.MAX_SAMPLES:
            self.samples.append(case)

    def violation(self, key, what, case):
        self.nviol += 1
        old = self.violations.get(key)
        size = len(json.dumps(case, default=repr))
        if old is None:
            if len(self.violations) < self.MAX_VIOL:
                self.violations[key] = (what, case, size)
        elif size < old[2]:
            self.violations[key] = (what, case, size)

    def merge(self, other: 'Partial'):
        self.evaluations += other.evaluations
        self.transitions += other.transitions
        self.states += other.states
        self.nontrivial += other.nontrivial
        self.outcomes.update(other.outcomes)
        self.extra.update(other.extra)
        self.caps.extend(other.caps)
        self.nviol += other.nviol
        for key, (what, case, size) in other.violations.items():
            old = self.violations.get(key)
            if old is None:
                if len(self.violations) < self.MAX_VIOL:
                    self.violations[key] = (what, case, size)
            elif size < old[2]:
                self.violations[key] = (what, case, size)
        for smp in other.samples:
            self.sample(smp)
        return self


class Ctx(Partial):
    """Run context of one check."""

    def __init__(self, pid, tier, seed):
        super().__init__()
        self.pid, self.tier, self.seed = pid, tier, seed
        self.rule = ''
        self.assumptions = []
        self.trusted_base = []
        self.exhaustive = True
        self.bounds = {}
        self.min_outcomes = 2
        self.notes = {}
        self.t0 = time.time()

    @property
    def thorough(self):
        return self.tier == 'thorough'


def _run_child(fn, item, path):
    """Runs in a forked child: execute fn(item), pickle the result to `path`, never return."""
    code = 0
    try:
        import_guard()
        res = fn(item)
        with open(path + '.tmp', 'wb') as fh:
            pickle.dump(('ok', res), fh, protocol=pickle.HIGHEST_PROTOCOL)
    except BaseException:  # pylint: disable=broad-except
        code = 1
        try:
            with open(path + '.tmp', 'wb') as fh:
                pickle.dump(('error', traceback.format_exc()), fh)
        except BaseException:  # pylint: disable=broad-except
            code = 2
    try:
        os.replace(path + '.tmp', path)
    except OSError:
        code = 2
    sys.stdout.flush()
    sys.stderr.flush()
    os._exit(code)  # pylint: disable=protected-access


def pmap(fn, items, jobs=None, timeout=None):
    """Run fn(item) for every item in forked worker processes; yield the results as they complete.
    Own minimal pool (fork + result files): a crashing or hanging worker can never hang the parent -
    every job is under a wall-clock limit and failures become HarnessError (exit 2, no verdict)."""
    items = list(items)
    jobs = min(jobs or NCPU, max(1, len(items)))
    timeout = timeout or float(os.environ.get('VF_JOB_TIMEOUT', '3600'))
    if os.environ.get('VF_SERIAL'):
        for item in items:
            import_guard()
            yield fn(item)
        return
    tmpdir = tempfile.mkdtemp(prefix='vf_pmap_')
    running = {}   # pid -> (index, start)
    nxt = 0
    try:
        while nxt < len(items) or running:
            while nxt < len(items) and len(running) < jobs:
                path = os.path.join(tmpdir, f'r{nxt}')
                sys.stdout.flush()
                sys.stderr.flush()
                pid = os.fork()
                if pid == 0:
                    _run_child(fn, items[nxt], path)
                running[pid] = (nxt, time.time())
                nxt += 1
            pid, status = os.waitpid(-1, os.WNOHANG)
            if pid == 0:
                now = time.time()
                for p, (idx, start) in running.items():
                    if now - start > timeout:
                        raise HarnessError(f'worker for job {idx} exceeded {timeout}s')
                time.sleep(0.005)
                continue
            if pid not in running:
                continue
            idx, _start = running.pop(pid)
            path = os.path.join(tmpdir, f'r{idx}')
            if not os.path.exists(path):
                raise HarnessError(f'worker for job {idx} died (status {status}) without a result')
            with open(path, 'rb') as fh:
                tag, res = pickle.load(fh)
            os.unlink(path)
            if tag != 'ok':
                raise HarnessError('worker failed:\n' + res)
            yield res
    finally:
        for p in running:
            try:
                os.kill(p, signal.SIGKILL)
            except OSError:
                pass
        for p in running:
            try:
                os.waitpid(p, 0)
            except OSError:
                pass
        shutil.rmtree(tmpdir, ignore_errors=True)


def pqueue(fn, initial, jobs=None, timeout=None):
    """Dynamic work queue on forked workers: fn(item) -> (result, [new items]); yields the results.
    No barriers: a finished worker is replaced at once by the next pending item."""
    pending = list(initial)
    jobs = jobs or NCPU
    timeout = timeout or float(os.environ.get('VF_JOB_TIMEOUT', '3600'))
    tmpdir = tempfile.mkdtemp(prefix='vf_pq_')
    running = {}
    seq = 0
    try:
        while pending or running:
            while pending and len(running) < jobs:
                item = pending.pop()
                path = os.path.join(tmpdir, f'r{seq}')
                sys.stdout.flush()
                sys.stderr.flush()
                pid = os.fork()
                if pid == 0:
                    _run_child(fn, item, path)
                running[pid] = (path, time.time())
                seq += 1
            pid, status = os.waitpid(-1, os.WNOHANG)
            if pid == 0:
                now = time.time()
                for _p, (_path, start) in running.items():
                    if now - start > timeout:
                        raise HarnessError(f'queue worker exceeded {timeout}s')
                time.sleep(0.003)
                continue
            if pid not in running:
                continue
            path, _start = running.pop(pid)
            if not os.path.exists(path):
                raise HarnessError(f'queue worker died (status {status}) without a result')
            with open(path, 'rb') as fh:
                tag, res = pickle.load(fh)
            os.unlink(path)
            if tag != 'ok':
                raise HarnessError('worker failed:\n' + res)
            result, new_items = res
            pending.extend(new_items)
            yield result
    finally:
        for p in running:
            try:
                os.kill(p, signal.SIGKILL)
            except OSError:
                pass
        for p in running:
            try:
                os.waitpid(p, 0)
            except OSError:
                pass
        shutil.rmtree(tmpdir, ignore_errors=True)


def load_known():
    if not os.path.exists(KNOWN_FILE):
        return {}, []
    with open(KNOWN_FILE, encoding='utf-8') as fh:
        data = json.load(fh)
    known = {}
    for f in data.get('findings', []):
        known[(f['property'], f['key'])] = f.get('what', '')
    return known, data.get('fixed', [])


def write_replay(pid, key, what, case):
    os.makedirs(os.path.join(REPLAY_DIR, pid), exist_ok=True)
    body = {'property': pid, 'key': key, 'what': what, 'case': case}
    path = os.path.join(REPLAY_DIR, pid, jhash([pid, key, case]) + '.json')
    with open(path, 'w', encoding='utf-8') as fh:
        json.dump(body, fh, indent=1, sort_keys=True, default=repr)
    return path


def finish(ctx: Ctx) -> int:
    """Print the verdict lines, write the evidence file, return the exit code."""
    known, _fixed = load_known()
    rc = 0
    unknown = 0
    known_hit = []
    for key in sorted(ctx.violations):
        what, case, _ = ctx.violations[key]
        if (ctx.pid, key) in known:
            print(f'KNOWN-FINDING: property={ctx.pid} {key}: {what}')
            known_hit.append(key)
            write_replay(ctx.pid, key, what, case)
        else:
            path = write_replay(ctx.pid, key, what, case)
            print(f'VIOLATION property={ctx.pid} replay={path}')
            print(f'  key={key}\n  what={what}')
            unknown += 1
            rc = 1
    distinct_outcomes = len(ctx.outcomes)
    vacuous = distinct_outcomes < ctx.min_outcomes or ctx.evaluations == 0
    coverage = {
        'states': max(ctx.states, 1) if ctx.evaluations else 0,
        'transitions': max(ctx.transitions, 1) if ctx.evaluations else 0,
        'traces_validated_against_impl': ctx.evaluations,
        'samples': ctx.samples or ['<none>'],
        'evaluations': ctx.evaluations,
        'distinct_nontrivial': ctx.nontrivial,
        'rule': ctx.rule,
        'exhaustive': bool(ctx.exhaustive and not ctx.caps),
        'bounds': ctx.bounds,
        'caps_hit': ctx.caps,
        'distinct_outcomes': distinct_outcomes,
        'outcomes': dict(ctx.outcomes.most_common(40)),
        'trusted_base': ctx.trusted_base,
        'violations_total': ctx.nviol,
        'violation_keys_unknown': unknown,
        'known_findings_reobserved': known_hit,
    }
    coverage.update({k: v for k, v in ctx.extra.items()})
    coverage.update(ctx.notes)
    evidence = {
        'property_id': ctx.pid, 'tier': ctx.tier, 'seed': ctx.seed, 'level': 'model_checking',
        'coverage': coverage, 'assumptions': ctx.assumptions,
        'wall_s': round(time.time() - ctx.t0, 3), 'violations': unknown,
    }
    os.makedirs(EVIDENCE_DIR, exist_ok=True)
    with open(os.path.join(EVIDENCE_DIR, f'{ctx.pid}.json'), 'w', encoding='utf-8') as fh:
        json.dump(evidence, fh, indent=1, sort_keys=True, default=repr)
        fh.write('\n')
    print(f'{ctx.pid} tier={ctx.tier} cases={ctx.evaluations} states={ctx.states} '
          f'transitions={ctx.transitions} nontrivial={ctx.nontrivial} '
          f'outcomes={distinct_outcomes} violations={ctx.nviol} (unknown keys {unknown}) '
          f'wall={evidence["wall_s"]}s' + (f' CAPS={ctx.caps}' if ctx.caps else ''))
    if rc == 0 and vacuous:
        print(f'HARNESS: vacuous exploration (cases={ctx.evaluations}, '
              f'distinct outcomes={distinct_outcomes} < {ctx.min_outcomes})')
        return 2
    return rc


def run_watched(cmd, env=None, cwd=None, stall_seconds=120, wall_cap=7200):
    """Run a child process without a wall-clock verdict: the child is declared STUCK only if it consumes (almost) no
    CPU time - less than 1 % of one core - over a window of `stall_seconds` (all its threads blocked: a deadlock; the
    background thread of a sanitizer runtime stays below that), which a merely starved process on a loaded machine
    does not show; `wall_cap` is a last resort and a harness error, never a verdict.
    Returns (returncode | 'stalled', stdout, stderr)."""
    import subprocess  # pylint: disable=import-outside-toplevel
    import tempfile  # pylint: disable=import-outside-toplevel
    import time  # pylint: disable=import-outside-toplevel
    with tempfile.TemporaryFile('w+') as fout, tempfile.TemporaryFile('w+') as ferr:
        proc = subprocess.Popen(cmd, env=env, cwd=cwd, stdout=fout, stderr=ferr, text=True)  # pylint: disable=consider-using-with

        def cpu_ticks():
            try:
                with open(f'/proc/{proc.pid}/stat', encoding='utf-8') as fh:
                    fields = fh.read().rsplit(')', 1)[1].split()
                return int(fields[11]) + int(fields[12])        # utime + stime of all threads
            except (OSError, IndexError, ValueError):
                return None
        start = time.time()
        win_ticks, win_start = cpu_ticks() or 0, time.time()
        verdict = None
        hz = os.sysconf('SC_CLK_TCK') if hasattr(os, 'sysconf') else 100
        while True:
            try:
                proc.wait(timeout=2)
                break
            except subprocess.TimeoutExpired:
                pass
            now = time.time()
            if now - win_start >= stall_seconds:
                ticks = cpu_ticks()
                if ticks is not None and (ticks - win_ticks) < 0.01 * hz * (now - win_start):
                    verdict = 'stalled'
                    proc.kill()
                    proc.wait()
                    break
                win_ticks, win_start = (ticks if ticks is not None else win_ticks), now
            if now - start > wall_cap:
                proc.kill()
                proc.wait()
                raise HarnessError(f'child process exceeded the wall-clock cap of {wall_cap}s: {cmd[0]}')
        fout.seek(0)
        ferr.seek(0)
        return (verdict or proc.returncode), fout.read(), ferr.read()
