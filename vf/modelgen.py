"""Model space for everything that involves a Dezyne model (DESIGN 3.2) - independent of dznpy.

A *model* is {'doc': <docgen document>, 'encapsulee': [fqn ids], 'file': 'Base.dzn'}.
From it we derive (a) the JSON AST (docgen.to_json), (b) the reference facts (`Facts`), and
(c) the mock "dzn code" C++ header (`mock_header`).
"""
import itertools

from . import docgen as D


# ---------------------------------------------------------------------------------------------
# reference scoping (C07 statement): look `written` up from `scope` outward
# ---------------------------------------------------------------------------------------------

class Decl:
    def __init__(self, kind, fqn, node, scope):
        self.kind, self.fqn, self.node, self.scope = kind, tuple(fqn), node, tuple(scope)

    def __repr__(self):
        return f'{self.kind}:{".".join(self.fqn)}'


SEARCHED = ('component', 'system', 'foreign', 'interface', 'enum', 'subint', 'extern')


def declarations(doc):
    out = []

    def walk(nodes, scope):
        for node in nodes:
            kind = node[0]
            if kind == 'ns':
                walk(node[2], scope + list(node[1]))
            elif kind in SEARCHED:
                out.append(Decl(kind, scope + D.nid(node[1]), node, scope))
                if kind == 'interface':
                    for typ in node[2]:
                        if typ[0] in ('enum', 'subint'):
                            out.append(Decl(typ[0], scope + D.nid(node[1]) + [typ[1]], typ, scope + D.nid(node[1])))

    walk(doc, [])
    return out


def lookup(decls, written, scope):
    """All declarations on the scope chain, innermost candidates first (multiset)."""
    chain = [tuple(scope[:k]) + tuple(written) for k in range(len(scope), -1, -1)]
    return [d for cand in chain for d in decls if d.fqn == cand]


class Unresolved(Exception):
    """The reference lookup does not yield exactly one declaration of the right kind."""


def resolve(decls, written, scope, kinds):
    hits = lookup(decls, written, scope)
    if len(hits) != 1:
        raise Unresolved(f'{".".join(written)} from {".".join(scope) or "<global>"}: {len(hits)} hits {hits}')
    if hits[0].kind not in kinds:
        raise Unresolved(f'{".".join(written)}: wrong kind {hits[0].kind}')
    return hits[0]


# ---------------------------------------------------------------------------------------------
# facts
# ---------------------------------------------------------------------------------------------

class EventFacts:
    def __init__(self, name, direction, reply, formals):
        self.name, self.direction = name, direction
        self.reply = reply            # ('void',) | ('bool',) | ('enum', fqn, fields) | ('int',)
        self.formals = formals        # [(name, cpp_type, direction)]

    @property
    def cpp_reply(self):
        if self.reply[0] == 'enum':
            return '::' + '::'.join(self.reply[1])
        return {'void': 'void', 'bool': 'bool', 'int': 'int'}[self.reply[0]]


class PortFacts:
    def __init__(self, name, direction, injected, itf_fqn, events, written):
        self.name, self.direction, self.injected = name, direction, injected
        self.itf_fqn, self.events, self.written = tuple(itf_fqn), events, tuple(written)

    @property
    def cap(self):
        return self.name[0].upper() + self.name[1:]

    @property
    def cpp_itf(self):
        return '::' + '::'.join(self.itf_fqn)

    def ins(self):
        return [e for e in self.events if e.direction == 'in']

    def outs(self):
        return [e for e in self.events if e.direction == 'out']


class Facts:
    """Everything the reference knows about a model. Raises Unresolved if the model's names do
    not resolve uniquely (then a build must fail)."""

    def __init__(self, model):
        self.model = model
        self.doc = model['doc']
        self.decls = declarations(self.doc)
        enc = tuple(model['encapsulee'])
        hits = [d for d in self.decls if d.fqn == enc]
        if len(hits) != 1:
            raise Unresolved(f'encapsulee {enc}: {len(hits)} hits')
        self.enc = hits[0]
        if self.enc.kind not in ('component', 'system'):
            raise Unresolved(f'encapsulee is a {self.enc.kind}')
        self.scope = self.enc.scope
        self.base = model['file'].rsplit('/', 1)[-1].rsplit('.', 1)[0]
        self.ports = []
        for p in self.enc.node[2]:
            itf = resolve(self.decls, p[1], self.scope, ('interface',))
            self.ports.append(PortFacts(p[0], p[2], bool(p[3]), itf.fqn, self.interface_events(itf), p[1]))

    def interface_events(self, itf, strict=True):
        events = []
        for ev in itf.node[3]:
            ret = tuple(ev[2])
            if ret == ('void',):
                reply = ('void',)
            elif ret == ('bool',):
                reply = ('bool',)
            else:
                try:
                    dec = resolve(self.decls, ret, itf.fqn, ('enum', 'subint'))
                    reply = ('enum', dec.fqn, tuple(dec.node[2])) if dec.kind == 'enum' else ('int',)
                except Unresolved:
                    if strict:
                        reply = ('unresolved', ret)
                    else:
                        raise
            formals = []
            for f in ev[3]:
                try:
                    ext = resolve(self.decls, f[1], itf.fqn, ('extern',))
                    formals.append((f[0], ext.node[2], f[2]))
                except Unresolved as exc:
                    formals.append((f[0], ('unresolved', str(exc)), f[2]))
            events.append(EventFacts(ev[0], ev[1], reply, formals))
        return events

    @property
    def provides(self):
        return [p for p in self.ports if p.direction == 'provides']

    @property
    def requires(self):
        return [p for p in self.ports if p.direction == 'requires' and not p.injected]

    @property
    def injected(self):
        return [p for p in self.ports if p.direction == 'requires' and p.injected]

    def port(self, name):
        return [p for p in self.ports if p.name == name][0]

    def formals_unresolved(self, port):
        return [f for e in port.events for f in e.formals if isinstance(f[1], tuple)]


# ---------------------------------------------------------------------------------------------
# mock "dzn code" header
# ---------------------------------------------------------------------------------------------

def _wrap(ns, body):
    return ''.join(f'namespace {n} {{ ' for n in ns) + body + ' }' * len(ns)


def _enum_cpp(node):
    fields = ', '.join(node[2]) if node[2] else ''
    return f'enum struct {D.nid(node[1])[-1]} {{ {fields} }};'


def mock_header(model, guard=None, probe_include='verif_probe.hh'):
    """C++ text of <Base>.hh as `dzn code` would provide it (API-compatible mock).
    Interfaces: struct with meta, in/out std::function members, check_bindings(); free connect().
    Components/systems: struct deriving dzn::component that looks its services up in the locator
    like real Dezyne components and records what it saw in verif::registry()."""
    facts = Facts(model)
    decls = facts.decls
    base = facts.base
    guard = guard or ('VERIF_MOCK_' + ''.join(c if c.isalnum() else '_' for c in base).upper() + '_HH')
    out = [f'#ifndef {guard}', f'#define {guard}', '#include <dzn/meta.hh>', '#include <dzn/locator.hh>',
           '#include <dzn/runtime.hh>', '#include <dzn/pump.hh>', '#include <functional>', '#include <string>',
           f'#include "{probe_include}"']
    for dec in decls:
        if dec.kind == 'enum' and not _is_nested(decls, dec):
            out.append(_wrap(dec.fqn[:-1], _enum_cpp(dec.node)))      # (a multi-identifier name opens namespaces)
    for dec in decls:
        if dec.kind == 'interface':
            events = facts.interface_events(dec)
            usable = all(not isinstance(f[1], tuple) for e in events for f in e.formals) and \
                all(e.reply[0] != 'unresolved' for e in events)
            if not usable:
                continue

            def sig(ev):
                params = ', '.join(f[1] + ('&' if f[2] != 'in' else '') for f in ev.formals)
                return f'std::function<{ev.cpp_reply}({params})> {ev.name};'
            ins = ' '.join(sig(e) for e in events if e.direction == 'in')
            outs = ' '.join(sig(e) for e in events if e.direction == 'out')
            chk = ' '.join(f'if (!{e.direction}.{e.name}) throw dzn::binding_error(meta, "{e.direction}.{e.name}");'
                           for e in events)
            enums = ' '.join(_enum_cpp(t) for t in dec.node[2] if t[0] == 'enum')
            con = ' '.join((f'provided.out.{e.name} = required.out.{e.name};' if e.direction == 'out'
                            else f'required.in.{e.name} = provided.in.{e.name};') for e in events)
            name = dec.fqn[-1]
            body = (f'struct {name} {{ {enums} dzn::port::meta meta; struct {{ {ins} }} in; struct {{ {outs} }} out; '
                    f'inline {name}(const dzn::port::meta& m) : meta(m) {{}} '
                    f'void check_bindings() const {{ {chk} }} }}; '
                    f'inline void connect({name}& provided, {name}& required) {{ {con} '
                    'provided.meta.require = required.meta.require; required.meta.provide = provided.meta.provide; }')
            out.append(_wrap(dec.fqn[:-1], body))
    for dec in decls:
        if dec.kind in ('component', 'system') and dec.fqn == facts.enc.fqn:
            name = dec.fqn[-1]
            members, inits, chks = [], [], []
            for p in facts.ports:
                if p.injected:
                    members.append(f'{p.cpp_itf}& {p.name};')
                    inits.append(f'{p.name}(l.get<{p.cpp_itf}>())')
                    continue
                members.append(f'{p.cpp_itf} {p.name};')
                if p.direction == 'provides':
                    inits.append(f'{p.name}({{{{"{p.name}",&{p.name},this,&dzn_meta}},{{"",nullptr,nullptr,nullptr}}}})')
                else:
                    inits.append(f'{p.name}({{{{"",nullptr,nullptr,nullptr}},{{"{p.name}",&{p.name},this,&dzn_meta}}}})')
                chks.append(f'{p.name}.check_bindings();')
            body = (f'struct {name} : public dzn::component {{ dzn::meta dzn_meta; dzn::runtime& dzn_runtime; '
                    f'const dzn::locator& dzn_locator; {" ".join(members)} '
                    f'{name}(const dzn::locator& l) : dzn_meta{{"","{name}",nullptr,{{}},{{}},{{}}}}, '
                    f'dzn_runtime(l.get<dzn::runtime>()), dzn_locator(l)'
                    f'{"".join(", " + i for i in inits)} '
                    '{ verif::registry().note_component(this, &l, l.try_get<dzn::pump>(), l.try_get<dzn::runtime>()); } '
                    f'void check_bindings() const {{ {" ".join(chks)} }} }};')
            out.append(_wrap(dec.fqn[:-1], body))
    out.append('#endif')
    return '\n'.join(out) + '\n'


def _is_nested(decls, dec):
    return any(d.kind == 'interface' and d.fqn == dec.scope for d in decls)


# ---------------------------------------------------------------------------------------------
# the dimension space of DESIGN 3.2
# ---------------------------------------------------------------------------------------------

T1, T2, T3 = 'verif::T1', 'verif::T2', 'verif::T3'
T4 = 'const verif::T4&'      # an extern whose C++ type is spelled as a const reference
# the same four externs in spellings that are not '::'-separated identifier chains (the templates are in verif_probe.hh)
EXOTIC = {'T1': 'verif::Pair<int, long>', 'T2': 'verif::Fn<void(int)>', 'T3': '::verif::Num<-1>',
          'T4': 'const struct verif::T4 &'}

BASE_POINT = {
    'ns': 'N',            # D1: '' | 'N' | 'N.M'
    'place': 'same',      # D2: same | parent | global | sibling
    'spell': 'simple',    # D2: simple | partial | full
    'nprov': 1, 'nreq': 1, 'ninj': 0,   # D3
    'share': True,        # D3: ports share one interface / distinct interfaces
    'menu': 'full',       # D4: full | empty | inonly | outonly
    'names': 'plain',     # D5: plain | caps | under
    'evnames': 'plain',   # D5: plain | acqfree | swapped   (claim/release naming)
    'psem': 'MTS',        # D6
    'rsem': 'allmts',     # D7: allmts | allsts | firstmts | firststs
    'fac': 'create',      # D8
    'extscope': 'global', # D2b: global (one set of externs) | split (every port's interface in its own namespace
                          #      with its OWN externs T1..T3 of different C++ types; implies distinct interfaces)
    'evorder': 'grouped', # D4b: grouped (ins then outs) | interleaved (in,out,in,out,...) | outsfirst
    'mc': 'none',         # D9: none | p0:<granting index> | p1:<granting index>
    'mcsig': 'io',        # D9b: formals of claim/release: io = claim(in,out) release(out) | none | inout = claim(inout) release(in)
    'mcreply': 'simple',  # D9d: how the claim event writes its reply enum (declared INSIDE the interface): simple | itf (IMc0.Res) | full
    'mcshare': 'none',    # D9e: another port with the SAME interface as the multi-client port: none | prov (a plain provides port
                          #      declared BEFORE it; needs mc=p1) | req (the first requires port)
    'mcmenu': 'full',     # D9c: full = claim, release, two other in-events, two out-events | bare = claim, release, one out-event
    'kind': 'component',  # D10
    'prefix': '',         # D11: '' | 'Other.Project'
    'portorder': 'grouped',  # D14: ports declared grouped by direction | interleaved (provides, requires, provides, ...)
    'nameform': 'plain',  # D13: how port names reach the configuration: plain str | instances of a str subclass with its own __str__
    'stem': 'M',          # D12: name of the Dezyne source file (= prefix of the shell's name): 'M' | a 52-character name
    'extspell': 'plain',  # D15: how the externs spell their C++ type: plain (verif::T1) | exotic (template with a comma and a
                          #      blank, a function signature in parentheses, a leading '::' with a negative template argument,
                          #      an elaborated type specifier with a blank before '&')
    'cxxflags': 'debug',  # D16: how the user's project compiles the generated code: debug (-O0) | release (-O2 -DNDEBUG)
}

DIMS = {
    'ns': ['', 'N', 'N.M', 'N.N', 'N.M.K'],     # 'N.N': a namespace nested in a namespace of the same name
    'place': ['same', 'parent', 'global', 'sibling', 'shadow'],
    'extscope': ['global', 'split'],
    'spell': ['simple', 'partial', 'full'],
    'nprov': [0, 1, 2, 3], 'nreq': [0, 1, 2, 3], 'ninj': [0, 1, 3],
    'share': [True, False, 'aba'],      # 'aba': the first and third port of a side share an interface, the second has another
    'menu': ['full', 'empty', 'inonly', 'outonly'],
    'evorder': ['grouped', 'interleaved', 'outsfirst', 'reversed'],
    'names': ['plain', 'caps', 'under', 'evlike', 'pykw', 'long', 'dunder'],
    'evnames': ['plain', 'acqfree', 'swapped', 'pykw', 'casepair'],
    'psem': ['MTS', 'STS'],
    'rsem': ['allmts', 'allsts', 'firstmts', 'firststs', 'lastmts', 'laststs'],
    'fac': ['create', 'import'],
    'mc': ['none', 'p0:0', 'p0:1', 'p0:2', 'p0:3', 'p1:0'],
    'mcsig': ['io', 'none', 'inout'],
    'mcmenu': ['full', 'bare'],
    'mcreply': ['simple', 'itf', 'full'],
    'mcshare': ['none', 'prov', 'req'],
    'kind': ['component', 'system'],
    'prefix': ['', 'Other.Project', 'M'],     # 'M': the name of the innermost namespace of an encapsulee in N.M
    'stem': ['M', 'VeryLongDezyneModelFileNameForTheHeatingSubsystemCtrl'],
    'nameform': ['plain', 'subclass', 'selsubclass'],     # selsubclass: the selections are instances of a user's subclass of PortSelect
    'portorder': ['grouped', 'interleaved'],
    'extspell': ['plain', 'exotic'],
    'cxxflags': ['debug', 'release'],
}

PORT_NAMES = {'plain': (['p', 'p2', 'p3'], ['r', 'r2', 'r3'], ['inj', 'inj2', 'inj3']),
              'caps': (['Api', 'Api2', 'Api3'], ['Hal', 'Hal2', 'Hal3'], ['Inj', 'Inj2', 'Inj3']),
              'under': (['_p1', '_p2', '_p3'], ['r_1', 'r_2', 'r_3'], ['i_n_j', 'i_n_j2', '_i3']),
              # ports named like events of their own interfaces
              'evlike': (['V0', 'O2', 'Evt'], ['O0', 'Same', 'Claim'], ['BoolRet', 'IntRet', 'Four']),
              # identifiers that are legal in Dezyne and C++ but keywords / builtins of Python
              'pykw': (['is', 'None', 'from'], ['as', 'self', 'raise'], ['lambda', 'def', 'elif']),
              # double underscores and underscore + capital (legal Dezyne names that C++ style guides frown upon)
              'dunder': (['hal__uart', '_Api', 'p__'], ['r__x', '_Hal', 'x__y__z'], ['inj__', '_Inj', 'i__']),
              # long names: generated statements exceed any reasonable line width
              'long': (['primaryTemperatureControlInterfacePortNumberOne', 'primaryTemperatureControlInterfacePortNumberTwo',
                        'primaryTemperatureControlInterfacePortNumberThree'],
                       ['secondaryHardwareAbstractionLayerPortNumberOne', 'secondaryHardwareAbstractionLayerPortNumberTwo',
                        'secondaryHardwareAbstractionLayerPortNumberThree'],
                       ['injectedConfigurationServicePortNumberOne', 'injectedConfigurationServicePortNumberTwo',
                        'injectedConfigurationServicePortNumberThree'])}

CLAIM_NAMES = {'plain': ('Claim', 'Release'), 'acqfree': ('Acquire', 'Free'), 'swapped': ('Release', 'Claim'),
               'pykw': ('yield', 'pass'),
               # look-alikes: in-events `claim` / `release` with the same signatures are declared BEFORE `Claim` / `Release`
               'casepair': ('Claim', 'Release')}


def full_menu():
    return [['V0', 'in', ['void'], []],
            ['EnumRet', 'in', ['Res'], [['a', ['T1'], 'in'], ['b', ['T2'], 'out'], ['c', ['T3'], 'inout']]],
            ['BoolRet', 'in', ['bool'], [['a', ['T1'], 'in']]],
            ['IntRet', 'in', ['Cnt'], []],
            ['InOut', 'in', ['void'], [['x', ['T2'], 'inout']]],
            ['Same', 'in', ['void'], [['a', ['T1'], 'in'], ['b', ['T1'], 'in'], ['c', ['T1'], 'inout']]],
            # formal names related by substring; an out formal BEFORE in formals
            ['Four', 'in', ['Res'], [['value', ['T3'], 'in'], ['val', ['T2'], 'out'], ['lue', ['T1'], 'in'], ['v', ['T3'], 'inout']]],
            ['OutFirst', 'in', ['void'], [['status', ['T2'], 'out'], ['level', ['T1'], 'in']]],
            # long event and formal names (the generated statements get longer than 120 columns)
            ['MeasurementRequestedForChannelOfTheDevice', 'in', ['Res'],
             [['firstMeasurementValueInMilliKelvin', ['T1'], 'in'], ['secondMeasurementValueInMilliKelvin', ['T2'], 'out'],
              ['thirdMeasurementValueInMilliKelvin', ['T3'], 'inout'], ['fourthMeasurementValueInMilliKelvin', ['T1'], 'in']]],
            ['MeasurementAvailableForChannelOfTheDevice', 'out', ['void'],
             [['firstMeasurementValueInMilliKelvin', ['T1'], 'in'], ['secondMeasurementValueInMilliKelvin', ['T2'], 'in'],
              ['thirdMeasurementValueInMilliKelvin', ['T3'], 'in'], ['fourthMeasurementValueInMilliKelvin', ['T1'], 'in']]],
            ['OFour', 'out', ['void'], [['total', ['T1'], 'in'], ['tot', ['T2'], 'in'], ['al', ['T3'], 'in'], ['t', ['T1'], 'in']]],
            # five, six and nine formals (anything laid out in rows of 4 or 5 shows here)
            ['I5', 'in', ['void'], [['a', ['T1'], 'in'], ['b', ['T2'], 'in'], ['c', ['T3'], 'out'], ['d', ['T1'], 'inout'], ['e', ['T2'], 'in']]],
            ['O5', 'out', ['void'], [['a', ['T1'], 'in'], ['b', ['T2'], 'in'], ['c', ['T3'], 'in'], ['d', ['T1'], 'in'], ['e', ['T2'], 'in']]],
            ['O6', 'out', ['void'], [['a', ['T1'], 'in'], ['b', ['T2'], 'in'], ['c', ['T3'], 'in'], ['d', ['T1'], 'in'], ['e', ['T2'], 'in'], ['f', ['T3'], 'in']]],
            ['I9', 'in', ['Res'], [['a', ['T1'], 'in'], ['b', ['T2'], 'out'], ['c', ['T3'], 'in'], ['d', ['T1'], 'inout'], ['e', ['T2'], 'in'],
                                    ['f', ['T3'], 'in'], ['g', ['T1'], 'out'], ['h', ['T2'], 'in'], ['i', ['T3'], 'in']]],
            ['IRef', 'in', ['bool'], [['a', ['T4'], 'in'], ['b', ['T2'], 'out']]],
            ['ORef', 'out', ['void'], [['a', ['T4'], 'in'], ['b', ['T1'], 'in']]],
            ['O0', 'out', ['void'], []],
            ['O2', 'out', ['void'], [['a', ['T1'], 'in'], ['b', ['T3'], 'in']]],
            ['OSame', 'out', ['void'], [['a', ['T3'], 'in'], ['b', ['T3'], 'in']]]]


def reorder(events, evorder):
    """Declaration order of the events inside the interface."""
    ins = [e for e in events if e[1] == 'in']
    outs = [e for e in events if e[1] == 'out']
    if evorder == 'outsfirst':
        return outs + ins
    if evorder == 'reversed':
        return list(reversed(events))     # e.g. the release event declared before the claim event
    if evorder == 'interleaved':
        res = []
        for i in range(max(len(ins), len(outs))):
            if i < len(ins):
                res.append(ins[i])
            if i < len(outs):
                res.append(outs[i])
        return res
    return ins + outs


def menu_events(menu):
    evs = full_menu()
    if menu == 'empty':
        return []
    if menu == 'inonly':
        return [e for e in evs if e[1] == 'in']
    if menu == 'outonly':
        return [e for e in evs if e[1] == 'out']
    return evs


def mc_events(evnames, mcsig='io', mcmenu='full'):
    claim, release = CLAIM_NAMES[evnames]
    cf = {'io': [['a', ['T1'], 'in'], ['b', ['T2'], 'out']], 'none': [], 'inout': [['a', ['T1'], 'inout']]}[mcsig]
    rf = {'io': [['b', ['T2'], 'out']], 'none': [], 'inout': [['b', ['T2'], 'in']]}[mcsig]
    import copy as _copy  # pylint: disable=import-outside-toplevel
    alike = [[claim.lower(), 'in', ['Res'], _copy.deepcopy(cf)], [release.lower(), 'in', ['void'], _copy.deepcopy(rf)]] \
        if evnames == 'casepair' else []
    if mcmenu == 'bare':
        # nothing but the claim and release events and one out-event
        return alike + [[claim, 'in', ['Res'], cf], [release, 'in', ['void'], rf], ['Evt', 'out', ['void'], [['a', ['T1'], 'in']]]]
    return alike + [[claim, 'in', ['Res'], cf],
            [release, 'in', ['void'], rf],
            ['Other', 'in', ['void'], [['a', ['T1'], 'in']]],
            ['Other2', 'in', ['bool'], []],
            ['Evt', 'out', ['void'], [['a', ['T1'], 'in']]],
            ['Evt0', 'out', ['void'], []]]


def valid_point(pt):
    """Combinations the space excludes by construction (not by observing the generator)."""
    ns = pt['ns'].split('.') if pt['ns'] else []
    if pt['place'] == 'parent' and not ns:
        return False
    if pt['place'] == 'sibling' and pt['spell'] == 'simple':
        return False            # a sibling namespace is not on the scope chain
    if pt['place'] == 'sibling' and not ns:
        return False
    if pt['place'] == 'shadow' and (len(ns) < 2 or pt['spell'] != 'full'):
        return False            # top-level namespace named like the component's innermost namespace
    if pt.get('extscope') == 'split' and (pt['nprov'] + pt['nreq'] + pt['ninj'] < 2 or pt['spell'] == 'partial'):
        return False
    if pt['spell'] == 'partial' and pt['place'] not in ('sibling', 'same') :
        return False
    if pt['spell'] == 'partial' and len(ns) < 2 and pt['place'] == 'same':
        return False
    if pt.get('extspell', 'plain') != 'plain' and pt.get('extscope') == 'split':
        return False
    if pt.get('share') == 'aba' and (max(pt['nprov'], pt['nreq']) < 3 or pt.get('extscope') == 'split'):
        return False
    if pt['mc'] != 'none':
        if pt['psem'] != 'MTS' or pt['nprov'] < 1:
            return False
        if pt['mc'].startswith('p1') and pt['nprov'] < 2:
            return False
    if pt['rsem'] in ('firstmts', 'firststs', 'lastmts', 'laststs') and pt['nreq'] < 2:
        return False
    if pt.get('nameform', 'plain') == 'subclass' and pt['rsem'] in ('allmts', 'allsts') and pt['mc'] == 'none':
        return False            # no name is written anywhere in such a configuration
    if pt.get('mcsig', 'io') != 'io' and pt['mc'] == 'none':
        return False
    if pt.get('mcmenu', 'full') != 'full' and pt['mc'] == 'none':
        return False
    if pt.get('mcreply', 'simple') != 'simple' and pt['mc'] == 'none':
        return False
    ms = pt.get('mcshare', 'none')
    if ms != 'none' and (pt['mc'] == 'none' or pt.get('extscope') == 'split'):
        return False
    if ms == 'prov' and not pt['mc'].startswith('p1'):
        return False
    if ms == 'req' and pt['nreq'] < 1:
        return False
    if pt.get('portorder', 'grouped') != 'grouped' and (pt['nprov'] + pt['nreq'] + pt['ninj'] < 3 or pt['nprov'] < 1):
        return False
    if pt['nreq'] == 0 and pt['rsem'] != 'allmts':
        return False
    return True


def build_model(pt):
    """Model + configuration description for one point of the space."""
    ns = pt['ns'].split('.') if pt['ns'] else []
    pnames, rnames, inames = PORT_NAMES[pt['names']]
    # where do the interfaces live, and how are they written in the port declarations?
    if pt['place'] == 'same':
        itf_ns = ns
    elif pt['place'] == 'parent':
        itf_ns = ns[:-1]
    elif pt['place'] == 'global':
        itf_ns = []
    elif pt['place'] == 'shadow':
        itf_ns = [ns[-1]]
    else:
        itf_ns = ns[:-1] + ['Sib']
    split = pt.get('extscope') == 'split'

    sub_of = {}      # interface name -> sub namespace (extscope=split)

    def written(name):
        fq = itf_ns + ([sub_of[name]] if name in sub_of else []) + [name]
        if split and pt['spell'] == 'simple':
            return fq[len(itf_ns):] if itf_ns == ns or not itf_ns else fq    # Sx.Name from a scope that sees Sx
        if pt['spell'] == 'full':
            return fq
        if pt['spell'] == 'partial':
            # drop the part of the prefix shared with the component's scope except the last
            # shared identifier... keep it simple: last two identifiers of the FQN
            return fq[-2:] if len(fq) >= 2 else fq
        return [name]

    mc_port = None
    grant_idx = 0
    if pt['mc'] != 'none':
        which, gidx = pt['mc'].split(':')
        mc_port = int(which[1])
        grant_idx = int(gidx)
    res_enum = ['enum', 'Res', ['Ok', 'OkNot', 'Fail', 'F']]     # field names related by prefix; four fields
    types = [res_enum, ['subint', 'Cnt', 0, 9]]
    interfaces = []

    def make_itf(name, is_mc):
        events = mc_events(pt['evnames'], pt.get('mcsig', 'io'), pt.get('mcmenu', 'full')) if is_mc else menu_events(pt['menu'])
        if is_mc and pt.get('mcreply', 'simple') != 'simple':
            # the reply enum of the claim event written qualified by its interface / fully qualified
            own = ([f'S{len(sub_of)}'] if split else []) + [name]
            events[0][2] = (own if pt['mcreply'] == 'itf' else itf_ns + own) + ['Res']
        events = reorder(events, pt.get('evorder', 'grouped'))
        node = ['interface', name, [list(t) for t in types], events]
        if split:
            sub = f'S{len(sub_of)}'
            sub_of[name] = sub
            own = [['extern', t, f'verif::{t}_{sub}'] for t in ('T1', 'T2', 'T3')] + \
                  [['extern', 'T4', f'const verif::T4_{sub}&']]
            interfaces.append(['ns', [sub], own + [node]])
        else:
            interfaces.append(node)

    def have_itf(name):
        return name in sub_of or any(n[0] == 'interface' and n[1] == name for n in interfaces)

    ports = []
    nprov, nreq, ninj = pt['nprov'], pt['nreq'], pt['ninj']
    aba = pt['share'] == 'aba'
    if pt['share'] and not aba and mc_port is None and not split:
        make_itf('IShared', False)
        for i in range(nprov):
            ports.append([pnames[i], written('IShared'), 'provides', False])
        for i in range(nreq):
            ports.append([rnames[i], written('IShared'), 'requires', False])
        for i in range(ninj):
            ports.append([inames[i], written('IShared'), 'requires', True])
    else:
        mcshare = pt.get('mcshare', 'none')
        for i in range(nprov):
            if mc_port == i:
                if not have_itf(f'IMc{i}'):
                    make_itf(f'IMc{i}', True)
                ports.append([pnames[i], written(f'IMc{i}'), 'provides', False])
            elif mcshare == 'prov' and mc_port is not None and i < mc_port:
                # a plain provides port of the multi-client port's interface, declared before it
                if not have_itf(f'IMc{mc_port}'):
                    make_itf(f'IMc{mc_port}', True)
                ports.append([pnames[i], written(f'IMc{mc_port}'), 'provides', False])
            elif aba:
                name = 'IPa' if i != 1 else 'IPb'
                if not have_itf(name):
                    make_itf(name, False)
                ports.append([pnames[i], written(name), 'provides', False])
            elif pt['share'] and not split:
                if not have_itf('IShared'):
                    make_itf('IShared', False)
                ports.append([pnames[i], written('IShared'), 'provides', False])
            else:
                make_itf(f'IP{i}', False)
                ports.append([pnames[i], written(f'IP{i}'), 'provides', False])
        for i in range(nreq):
            if mcshare == 'req' and mc_port is not None and i == 0:
                ports.append([rnames[i], written(f'IMc{mc_port}'), 'requires', False])
            elif aba:
                name = 'IRa' if i != 1 else 'IRb'
                if not have_itf(name):
                    make_itf(name, False)
                ports.append([rnames[i], written(name), 'requires', False])
            elif pt['share'] and not split:
                if not have_itf('IShared'):
                    make_itf('IShared', False)
                ports.append([rnames[i], written('IShared'), 'requires', False])
            else:
                make_itf(f'IR{i}', False)
                ports.append([rnames[i], written(f'IR{i}'), 'requires', False])
        for i in range(ninj):
            if not have_itf('IInj'):
                make_itf('IInj', False)
            ports.append([inames[i], written('IInj'), 'requires', True])
    if pt.get('portorder', 'grouped') == 'interleaved':
        provs = [p for p in ports if p[2] == 'provides']
        reqs = [p for p in ports if p[2] == 'requires']
        ports = []
        for i in range(max(len(provs), len(reqs))):
            ports += provs[i:i + 1] + reqs[i:i + 1]
    # put the multi-client port second if p1
    if pt['kind'] == 'system':
        comp = ['system', 'Comp', ports, [], []]
    else:
        comp = ['component', 'Comp', ports]
    externs = [] if split else [['extern', 'T1', T1], ['extern', 'T2', T2], ['extern', 'T3', T3], ['extern', 'T4', T4]]
    if not split and pt.get('extspell', 'plain') == 'exotic':
        externs = [['extern', t, EXOTIC[t]] for t in ('T1', 'T2', 'T3', 'T4')]

    def nest(path, nodes):
        for ident in reversed(path):
            nodes = [['ns', [ident], nodes]]
        return nodes

    doc = list(externs)
    doc += nest(itf_ns, interfaces)
    doc += nest(ns, [comp])
    model = {'doc': doc, 'encapsulee': ns + ['Comp'], 'file': f'some/dir/{pt.get("stem", "M")}.dzn'}
    # configuration description (independent of dznpy types)
    prov = [p[0] for p in ports if p[2] == 'provides']
    req = [p[0] for p in ports if p[2] == 'requires' and not p[3]]
    sem = {p: pt['psem'] for p in prov}
    rsem = pt['rsem']
    for i, r in enumerate(req):
        if rsem == 'allmts':
            sem[r] = 'MTS'
        elif rsem == 'allsts':
            sem[r] = 'STS'
        elif rsem == 'firstmts':
            sem[r] = 'MTS' if i == 0 else 'STS'
        elif rsem == 'firststs':
            sem[r] = 'STS' if i == 0 else 'MTS'
        elif rsem == 'lastmts':
            sem[r] = 'MTS' if i == len(req) - 1 else 'STS'
        else:
            sem[r] = 'STS' if i == len(req) - 1 else 'MTS'
    psel = ['NONE', 'ALL'] if pt['psem'] == 'MTS' else ['ALL', 'NONE']
    rsel = {'allmts': ['NONE', 'ALL'], 'allsts': ['ALL', 'NONE'],
            'firstmts': ['REMAINING', req[:1]], 'firststs': [req[:1], 'REMAINING'],
            'lastmts': [req[:-1] or 'NONE', req[-1:] or 'NONE'], 'laststs': [req[-1:] or 'NONE', 'REMAINING']}[rsem]
    cfg = {'suffix': 'Shell', 'fac': pt['fac'], 'prefix': pt['prefix'], 'sem': sem,
           'provides': psel, 'requires': rsel, 'mc': None,
           'copyright': 'Copyright (c) verif\nAll rights reserved', 'creator': 'created by vf'}
    if pt.get('nameform', 'plain') != 'plain':
        cfg['names_form'] = pt['nameform']
    if mc_port is not None:
        claim, release = CLAIM_NAMES[pt['evnames']]
        cfg['mc'] = {'port': prov[mc_port], 'claim': claim, 'grant': res_enum[2][grant_idx], 'release': release,
                     'grant_idx': grant_idx, 'fields': res_enum[2]}
    return model, cfg


def point_id(pt):
    diffs = [f'{k}={pt[k]}' for k in sorted(pt) if pt[k] != BASE_POINT[k]]
    return ','.join(diffs) or 'base'


def points(k, base=None):
    """Deviation-bounded enumeration: all valid points differing from the base in <= k dims."""
    from .explore import deviations  # pylint: disable=import-outside-toplevel
    seen = set()
    for pt, combo in deviations(base or BASE_POINT, DIMS, k):
        if not valid_point(pt):
            continue
        key = point_id(pt)
        if key not in seen:
            seen.add(key)
            yield pt, combo


def mc_base_point():
    pt = dict(BASE_POINT)
    pt['mc'] = 'p0:0'
    return pt


def semantics_origin_cross():
    """Every STS/MTS assignment expressible for 1 provides + 2 requires ports x both origins."""
    out = []
    for psem in DIMS['psem']:
        for rsem in DIMS['rsem']:
            for fac in DIMS['fac']:
                pt = dict(BASE_POINT)
                pt.update({'psem': psem, 'rsem': rsem, 'fac': fac, 'nreq': 2})
                if fac == 'import' and rsem not in ('allmts', 'allsts'):
                    pt['nameform'] = 'subclass'       # the import half of the cross product names its ports Enum-like
                if valid_point(pt):
                    out.append(pt)
    return out


def semantics_origin_menu_cross():
    """Which events exist per direction x semantics per side x origin (the generator emits different wiring for each)."""
    out = []
    for menu in ('inonly', 'outonly', 'empty'):
        for psem in DIMS['psem']:
            for rsem in ('allmts', 'allsts'):
                for fac in DIMS['fac']:
                    pt = dict(BASE_POINT)
                    pt.update({'menu': menu, 'psem': psem, 'rsem': rsem, 'fac': fac})
                    if valid_point(pt):
                        out.append(pt)
    return out


def small_cross():
    """QUICK: the complete cross product of five two-valued core dimensions - origin x provides semantics x requires
    semantics x injected port x multi-client."""
    out = []
    for fac, psem, rsem, ninj, mc in itertools.product(DIMS['fac'], DIMS['psem'], ('allmts', 'allsts'), (0, 1), ('none', 'p0:1')):
        pt = dict(BASE_POINT)
        pt.update({'fac': fac, 'psem': psem, 'rsem': rsem, 'ninj': ninj, 'mc': mc})
        if valid_point(pt):
            out.append(pt)
    return out


def core_cross():
    """THOROUGH: the complete cross product of eight core dimensions with reduced value sets - every interaction of any
    number of them: origin x provides semantics x requires semantics x multi-client x component/system x namespace depth
    x injected port x support prefix."""
    out = []
    for fac, psem, rsem, mc, kind, ns, ninj, prefix in itertools.product(
            DIMS['fac'], DIMS['psem'], ('allmts', 'allsts', 'firstmts'), ('none', 'p0:1'), DIMS['kind'], ('', 'N', 'N.M'),
            (0, 1), ('', 'Other.Project')):
        pt = dict(BASE_POINT)
        pt.update({'fac': fac, 'psem': psem, 'rsem': rsem, 'mc': mc, 'kind': kind, 'ns': ns, 'ninj': ninj, 'prefix': prefix,
                   'nreq': 2})
        if valid_point(pt):
            out.append(pt)
    return out


def lab_points(k):
    """Point set shared by all lab properties: deviations from the base point and from the
    multi-client base point, plus the semantics x origin cross product."""
    seen, out = set(), []
    for pt, _combo in list(points(k)) + list(points(k, mc_base_point())):
        key = point_id(pt)
        if key not in seen:
            seen.add(key)
            out.append(pt)
    for pt in extra_points(k):
        key = point_id(pt)
        if key not in seen:
            seen.add(key)
            out.append(pt)
    return out


def extra_points(k):
    """Cross products and corner points beyond the deviation-bounded neighbourhoods (also used by C13)."""
    seen, out = set(), []
    corners = []
    for base in (BASE_POINT, mc_base_point()):
        for delta in ({'ns': 'N.M', 'place': 'shadow', 'spell': 'full'},          # namespace shadowing
                      {'extscope': 'split', 'nreq': 2},                            # same-named externs per interface
                      {'extscope': 'split', 'nprov': 2, 'nreq': 2, 'ns': 'N.M'},
                      {'mc': 'p1:0', 'nprov': 2},                                  # multi-client port named 'p2' next to 'p'
                      {'mc': 'p1:0', 'nprov': 3, 'nreq': 3, 'names': 'caps'},       # ... in the middle of three
                      {'nprov': 3, 'nreq': 3, 'share': 'aba'},                     # same interface on non-adjacent ports
                      {'stem': DIMS['stem'][1], 'fac': 'import'},                  # long shell name, both origins
                      {'mc': 'p1:0', 'nprov': 2, 'mcshare': 'prov'},               # the multi-client interface also on a plain port
                      {'mc': 'p0:0', 'mcshare': 'req'},
                      {'ns': 'N.M', 'prefix': 'M'},        # support namespace named like the encapsulee's innermost namespace
                      {'nprov': 2, 'nreq': 2, 'portorder': 'interleaved'},         # ports not grouped by direction
                      {'nprov': 3, 'nreq': 3, 'rsem': 'lastmts'}):
            pt = dict(base)
            pt.update(delta)
            if valid_point(pt):
                corners.append(pt)
    for pt in semantics_origin_cross() + semantics_origin_menu_cross() + corners + small_cross() + (core_cross() if k >= 2 else []):
        key = point_id(pt)
        if key not in seen:
            seen.add(key)
            out.append(pt)
    return out
