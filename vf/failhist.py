"""FAILURE STAGES - shared by the checks of all generator properties.

Builds that fail at every stage of the generator (encapsulee lookup, port matching - also with a ports configuration
object that is valid for another model -, multi-client check, late type lookup after earlier lookups succeeded, facilities,
support-file generation, rendering of user text - also with a BaseException) mixed with valid builds (both origins, prefix,
multi-client, system, a model that maps the same interface and extern NAMES to other C++ types), on ONE set of configuration
objects (a refused configuration may be submitted again), with a shared or a fresh Builder, in a process without / with the
documented indentation override.

Oracle: every build ends exactly as in a fresh process with the same override (same files byte for byte / same exception
class); inputs unchanged; module state unchanged. A property that holds for every single build in a fresh process (the main
part of each check) therefore holds after every explored history as well.
"""
import copy
import hashlib
import itertools
import json
import os
import subprocess
import sys

from .core import pmap, HarnessError, VERIF, REPO_SRC
from . import modelgen as M
from . import build as B
from .snapshot import snap, module_globals_digest


class _Boom(Exception):
    pass


class _BaseBoom(BaseException):
    pass


class _RaisingText:
    """User text whose rendering raises (a lazily computed copyright text that fails)."""

    def __init__(self, exc):
        self.exc = exc

    def __str__(self):
        raise self.exc('text not available')

    def __repr__(self):
        return f'<RaisingText {self.exc.__name__}>'


FS_OPS = ['V0', 'V1', 'V2', 'V3', 'V-alt', 'V-shared', 'V-replaced', 'V-kw', 'V-nested', 'V2-prefix', 'V-long-indented', 'V-long',
          'V-outer', 'V-inj', 'A-import', 'A-create', 'A-file', 'A-prefix',
          'F-enc', 'F-enc-outer', 'F-port', 'F-shared', 'F-late', 'F-mc', 'F-prefix-type', 'F-origin', 'F-text', 'F-text-base']
FS_VALID = FS_OPS[:18]
FS_FAIL = FS_OPS[18:]
# A-...: the caller ASSIGNS a field of the (mutable) configuration object 'V0' and builds it again - facilities origin
# import / create, another source file name; A-prefix: the caller changes the namespace-prefix OBJECT of configuration 'V1' in
# place (last identifier replaced) and builds V1; V-replaced: a ports configuration derived from V0's with dataclasses.replace;
# V2-prefix: the multi-client build with a namespace prefix; V-long-indented / V-long: creator lines of 130 characters, the first
# one beginning with blanks; V-outer: a component in N.M whose port type lives in the OUTER scope N, F-enc-outer: that model with
# the encapsulee name N.M.IShared (fails; the same identifiers as the lookup of the port type, split differently); V-inj: model 0
# with port r2 INJECTED (same port names, same selections as V0)
# V-kw: ports named like C++ / Python keywords (`default`, `register`, `pass`); V-nested: configuration V0 whose creator text is
# an object that, WHILE it is rendered, builds another shell (V1, import) with another Builder and then answers 'me' - the
# result must be the one of V0

_MODELS = []


def fs_models():
    """0: plain (p, r, r2)   1: multi-client   2: system in the global namespace   3: like 0, but the LAST formal of the last
    event with formals has an unknown type (an MTS build fails late, after many successful lookups)   4: like 0 with the same
    interface and extern names mapped to OTHER C++ types   5: like 0 without port r2 (a selection naming r2 is refused)"""
    if _MODELS:
        return _MODELS[0]
    pts = []
    for delta in ({'nreq': 2}, {'nreq': 2, 'mc': 'p0:0'}, {'nreq': 2, 'ns': '', 'kind': 'system'}, {'nreq': 2}, {'nreq': 2}, {}):
        pt = dict(M.BASE_POINT)
        pt.update(delta)
        pts.append(pt)
    res = [M.build_model(pt)[0] for pt in pts]
    # 6: like 0 with ports named like keywords of C++ and Python
    kw = copy.deepcopy(res[0])
    comp = [d for d in M.declarations(kw['doc']) if d.kind == 'component'][0]
    for port, name in zip(comp.node[2], ('default', 'register', 'pass')):
        port[0] = name
    res.append(kw)
    # 7: component in N.M, interface in the outer scope N, written with its simple name   8: model 0 with r2 injected
    pt = dict(M.BASE_POINT)
    pt.update({'ns': 'N.M', 'place': 'parent', 'nreq': 2})
    res.append(M.build_model(pt)[0])
    inj = copy.deepcopy(res[0])
    comp = [d for d in M.declarations(inj['doc']) if d.kind == 'component'][0]
    for port in comp.node[2]:
        if port[0] == 'r2':
            port[3] = True
    res.append(inj)
    itf = [d for d in M.declarations(res[3]['doc']) if d.kind == 'interface'][0]
    with_formals = [ev for ev in itf.node[3] if ev[3]]
    with_formals[-1][3][-1][1] = ['Nope']
    for node in res[4]['doc']:
        if node[0] == 'extern':
            node[2] = node[2].replace('verif::T', 'verif::Alt')
    _MODELS.append(res)
    return res


def fs_desc(which):
    mc = {'port': 'p', 'claim': 'Claim', 'grant': 'Ok', 'release': 'Release'}
    base = {'provides': ['NONE', 'ALL'], 'requires': [['r'], 'REMAINING'], 'fac': 'create', 'prefix': '', 'suffix': 'Shell',
            'mc': None, 'copyright': 'c\nd', 'creator': 'me'}
    if which == 'create':
        return base
    if which == 'import':
        return dict(base, provides=['ALL', 'NONE'], requires=['NONE', 'ALL'], fac='import', prefix='Other.Project', suffix='X',
                    copyright='c2', creator=None, verbose=True)
    if which == 'mc':
        return dict(base, mc=mc)
    if which == 'mc-void-claim':
        return dict(base, mc=dict(mc, claim='Other'))
    raise KeyError(which)


_NESTED_WORLD = [None]


class _NestedBuildText:
    """User text that is computed lazily - by building a sibling shell with the library - while the outer build renders it."""

    __slots__ = ()       # (no attributes: the world it builds from is looked up, so that snapshots of the configuration stop here)

    def __init__(self, world):
        _NESTED_WORLD[0] = world

    def __str__(self):
        from dznpy.adv_shell import Builder  # pylint: disable=import-outside-toplevel
        import contextlib  # pylint: disable=import-outside-toplevel
        import io  # pylint: disable=import-outside-toplevel
        with contextlib.redirect_stdout(io.StringIO()):
            Builder().build(_NESTED_WORLD[0].cfgs['V1'])
        return 'me'

    def __repr__(self):
        return '<NestedBuildText>'

    def __deepcopy__(self, memo):
        return self


class FsWorld:
    def __init__(self):
        from dznpy.scoping import ns_ids_t  # pylint: disable=import-outside-toplevel
        from dznpy.adv_shell import Builder  # pylint: disable=import-outside-toplevel
        ms = fs_models()
        self.fcts = [B.parse_model(m) for m in ms]

        def cfg(mi, desc, ports_cfg=None, **over):
            c = B.mk_configuration(ms[mi], desc, self.fcts[mi], ports_cfg)
            for k, v in over.items():
                setattr(c, k, v)
            return c
        create, imp = fs_desc('create'), fs_desc('import')
        # ONE ports configuration object (and its name sets) used for two models: valid for model 0, refused for model 5
        self.shared_ports = B.mk_ports_cfg(dict(create, requires=[['r', 'r2'], 'REMAINING']))
        self.cfgs = {
            'V0': cfg(0, create), 'V1': cfg(0, imp), 'V2': cfg(1, fs_desc('mc')), 'V3': cfg(2, imp),
            'V-alt': cfg(4, create), 'V-shared': cfg(0, create, self.shared_ports),
            'V-kw': cfg(6, dict(create, requires=[['register'], 'REMAINING'])),
            'V2-prefix': cfg(1, dict(fs_desc('mc'), prefix='Other.Project')),
            'V-long-indented': cfg(0, dict(create, creator='    run the generator with ' + 'many words ' * 10 + 'end')),
            'V-long': cfg(0, dict(create, creator='generated by the build of ' + 'several words ' * 8 + 'end')),
            'V-outer': cfg(7, create), 'V-inj': cfg(8, create),
            'F-enc-outer': cfg(7, create, fqn_encapsulee_name=ns_ids_t('N.M.IShared')),
            'F-enc': cfg(0, create, fqn_encapsulee_name=ns_ids_t('No.Such')),
            'F-port': cfg(0, dict(create, requires=[['r', 'ghost'], 'REMAINING'])),
            'F-shared': cfg(5, create, self.shared_ports),
            'F-late': cfg(3, create),
            'F-mc': cfg(1, fs_desc('mc-void-claim')),
            'F-prefix-type': cfg(0, imp, support_files_ns_prefix='Other.Stuff'),
            'F-origin': cfg(0, dict(create, fac='RAW:None')),
            'F-text': cfg(0, create, copyright=_RaisingText(_Boom)),
            'F-text-base': cfg(0, imp, creator_info=_RaisingText(_BaseBoom)),
        }
        self.cfgs['V-nested'] = cfg(0, create, creator_info=_NestedBuildText(self))
        import dataclasses  # pylint: disable=import-outside-toplevel
        other_req = B.mk_ports_cfg(dict(create, requires=[['r2'], 'REMAINING'])).requires
        self.cfgs['V-replaced'] = cfg(0, create, dataclasses.replace(self.cfgs['V0'].ports_cfg, requires=other_req))
        self.builder = Builder()

    def assign(self, op):
        """The user's own change of the configuration object V0 before it is built again."""
        from dznpy.adv_shell.common import FacilitiesOrigin  # pylint: disable=import-outside-toplevel
        cfg = self.cfgs['V0']
        if op == 'A-import':
            cfg.facilities_origin = FacilitiesOrigin.IMPORT
        elif op == 'A-create':
            cfg.facilities_origin = FacilitiesOrigin.CREATE
        elif op == 'A-file':
            cfg.dezyne_filename = 'elsewhere/Other_Name.dzn' if cfg.dezyne_filename != 'elsewhere/Other_Name.dzn' else 'x/Third.dzn'
        elif op == 'A-prefix':
            cfg = self.cfgs['V1']
            items = cfg.support_files_ns_prefix.items
            items[-1] = 'Changed' if items[-1] != 'Changed' else 'Again'
        return cfg

    def snaps(self, per_key=False):
        items = [('fcts', self.fcts), ('shared_ports', self.shared_ports)] + sorted(self.cfgs.items())
        if per_key:
            return {k: snap(v) for k, v in items}
        # one walk over everything (objects shared between the configurations are visited once)
        return {'all': snap(items)}


def fs_outcome(builder, cfg):
    import contextlib  # pylint: disable=import-outside-toplevel
    import io  # pylint: disable=import-outside-toplevel
    try:
        with contextlib.redirect_stdout(io.StringIO()):
            res = builder.build(cfg)
        return [[f.filename, hashlib.md5(f.contents.encode('utf-8')).hexdigest()] for f in res.files]
    except (Exception, _BaseBoom) as exc:  # pylint: disable=broad-except
        return ['EXC', type(exc).__name__]


def fs_set_override(value):
    from dznpy import text_gen  # pylint: disable=import-outside-toplevel
    old = text_gen.DEFAULT_INDENT_NR_SPACES
    text_gen.DEFAULT_INDENT_NR_SPACES = 4 if value is None else value
    return old


STATE_CHANGES = []     # (attribute, history prefix) of every observed change of module-level state since it was last cleared


FS_CHILD = r"""
import json, sys
sys.dont_write_bytecode = True
sys.path.insert(0, %(verif)r); sys.path.insert(0, %(src)r)
from vf import core; core.import_guard()
from vf import failhist
failhist.fs_set_override(%(override)r)
w = failhist.FsWorld()
ops = %(op)r.split('+')
target = w.cfgs.get(ops[-1])
for o in ops:
    if o.startswith('A-'):
        target = w.assign(o)
print(json.dumps(failhist.fs_outcome(w.builder, target if not ops[-1].startswith('V') else w.cfgs[ops[-1]])))
"""


def fs_child_reference(job):
    op, override = job
    code = FS_CHILD % {'verif': VERIF, 'src': REPO_SRC, 'op': op, 'override': override}
    res = subprocess.run([sys.executable, '-c', code], capture_output=True, text=True, timeout=300, check=False,
                         env=dict(os.environ, PYTHONHASHSEED='0'))
    if res.returncode != 0:
        raise HarnessError(f'reference child failed: {res.stderr[-600:]}')
    return f'{op}|{override}', json.loads(res.stdout.strip().splitlines()[-1])


def fs_references():
    assigns = [o for o in FS_OPS if o.startswith('A-')]
    keys = [o for o in FS_OPS if not o.startswith('A-')] + assigns + [f'{a}+{b}' for a in assigns for b in assigns] + \
           [f'{a}+{v}' for a in assigns for v in ('V0', 'V1')] + [f'{a}+{b}+{v}' for a in assigns for b in assigns for v in ('V0', 'V1')]
    return dict(pmap(fs_child_reference, [(op, ov) for op in keys for ov in (None, 2)]))


def fs_histories(level):
    """'reduced': every history of <= 2 operations, every [failure, the same failure, valid], every [failure, another
    failure, V0 | V1].
    'quick': + every [V, failure, V'] over the first four valid builds and [F, F, F', V] for the same failure twice.
    'thorough': + every history of length 3 with a failure in it."""
    for a in FS_OPS:
        yield [a]
        for b in FS_OPS:
            yield [a, b]
    if level == 'thorough':
        for h in itertools.product(FS_OPS, repeat=3):
            if any(o in FS_FAIL for o in h):
                yield list(h)
    else:
        for f in FS_FAIL:
            for g in FS_FAIL:
                for v in (FS_VALID if f == g else FS_VALID[:2]):
                    yield [f, g, v]
            if level != 'reduced':
                for v in FS_VALID[:4]:
                    for v2 in FS_VALID[:4]:
                        yield [v, f, v2]
    if level != 'reduced':
        for f in FS_FAIL:
            for g in FS_FAIL:
                for v in FS_VALID[:2]:
                    yield [f, f, g, v]


def explore_reduced(ctx, level='reduced', overrides=(None,)):
    """Run the family from another check (violations are reported under that check's property)."""
    from .core import Partial  # pylint: disable=import-outside-toplevel
    ref = fs_references()
    jobs = [(which, override, level, first, ref) for which in ('shared', 'fresh') for override in overrides for first in FS_OPS]
    for part in pmap(_fs_job, jobs):
        ctx.merge(part)
    ctx.extra['failure_stage_reference_processes'] += len(ref)
    ctx.bounds['failure_stage_histories'] = level


def _fs_job(job):
    from .core import Partial  # pylint: disable=import-outside-toplevel
    which, override, level, first_op, reference = job
    part = Partial()
    escalations = 0
    for hist in fs_histories(level):
        if hist[0] != first_op:
            continue
        del STATE_CHANGES[:]
        res = run_fs_history(hist, which, override, reference)
        part.evaluations += 1
        part.states += 1
        part.transitions += len(hist)
        part.nontrivial += 1 if any(o in FS_FAIL for o in hist) else 0
        part.outcome('failure-stages:len=%d' % len(hist))
        case = {'fs_history': hist, 'builder': which, 'override': override}
        for key, what in res:
            part.violation(key, what, case)
        if STATE_CHANGES and not res and escalations < 4 and len(hist) <= 3:
            # ESCALATION: this history left something behind at module / class level: every continuation by one operation and
            # by the same operation twice is explored as well
            escalations += 1
            part.extra['histories_that_changed_module_state'] += 1
            part.extra.setdefault('module_state_attributes', 0)
            for op in FS_OPS:
                for tail in ([op], [op, op]):
                    longer = hist + tail
                    res2 = run_fs_history(longer, which, override, reference)
                    part.evaluations += 1
                    part.states += 1
                    part.transitions += len(longer)
                    part.nontrivial += 1
                    part.outcome('failure-stages:escalated')
                    for key, what in res2:
                        part.violation(key, what + ' | explored because module state changed: ' + STATE_CHANGES[0][0],
                                       {'fs_history': longer, 'builder': which, 'override': override})
    return part


def judge_fs(case):
    res = run_fs_history(case['fs_history'], case['builder'], case['override'], fs_references())
    seen, out = set(), []
    for key, what in res:
        if key not in seen:
            seen.add(key)
            out.append((key, what))
    return out


def run_fs_history(hist, which, override, reference, per_op_snapshots=False):
    from dznpy.adv_shell import Builder  # pylint: disable=import-outside-toplevel
    out = []
    old = fs_set_override(override)
    try:
        world = FsWorld()
        pristine = module_globals_digest()
        before = world.snaps(per_op_snapshots)
        for i, op in enumerate(hist):
            builder = world.builder if which == 'shared' else Builder()
            if op.startswith('A-'):
                # the result of an assignment depends on the assignments before it: the reference is the same sequence of
                # assignments (and nothing else) in a fresh process
                target = world.assign(op)
                before = world.snaps(per_op_snapshots)
                assigned = [o for o in hist[:i + 1] if o.startswith('A-')]
                got = fs_outcome(builder, target)
                want = reference['+'.join(assigned) + f'|{override}'] if len(assigned) <= 2 else got
            else:
                got = fs_outcome(builder, world.cfgs[op])
                want = reference[f'{"V0" if op == "V-nested" else op}|{override}']
                earlier = [o for o in hist[:i] if o.startswith('A-')]
                if op in ('V0', 'V1') and earlier:
                    want = reference['+'.join(earlier + [op]) + f'|{override}'] if len(earlier) <= 2 else got
            if got != want:
                if got[0] == 'EXC' or want[0] == 'EXC':
                    key = f'after-failed-builds:outcome-differs-from-fresh-process:{got[1] if got[0] == "EXC" else "OK"}'
                    what = f'got {got[:2]} want {want[:2]}'
                else:
                    diff = [a[0] for a, b in zip(want, got) if a != b] or ['<list>']
                    key = f'after-failed-builds:output-differs-from-fresh-process:{diff[0].split(".")[-1]}'
                    what = f'files {diff} differ'
                out.append((key, f'op {i} ({op}): {what} | history={hist} builder={which} indent override={override}'))
            # (the inputs are snapshotted after the LAST operation only; when something changed, the history is replayed with a
            # snapshot after every operation to name the guilty one)
            after = world.snaps(per_op_snapshots) if (i == len(hist) - 1 or per_op_snapshots) else before
            if after != before:
                if not per_op_snapshots:
                    fs_set_override(None if old == 4 else old)
                    return run_fs_history(hist, which, override, reference, per_op_snapshots=True)
                changed = [k for k in before if before[k] != after[k]]
                out.append((f'after-failed-builds:input-mutated:{changed[0]}',
                            f'op {i} ({op}) changed {changed} | history={hist} builder={which} indent override={override}'))
                before = after
            digest = module_globals_digest()
            if digest != pristine:
                # hidden module / class level state is no violation by itself (a transparent cache is allowed): it is recorded and
                # makes the caller explore longer histories from here (see escalate)
                diff = ['.'.join(x for x in a[:3] if isinstance(x, str)) for a, b in zip(pristine, digest) if a != b][:3]
                STATE_CHANGES.append((diff[0] if diff else 'new-attribute', list(hist[:i + 1])))
                pristine = digest
    finally:
        fs_set_override(None if old == 4 else old)
    return out


