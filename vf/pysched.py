"""E4 - stateless schedule exploration of the Python generator itself: two operations in two real Python threads.

A schedule is "thread A runs until its i-th line event inside the library, thread B then runs to completion, A resumes":
exactly the executions with one preemption of A and none of B (B runs atomically; swap the roles for the other half).
The preemption is placed by a sys.settrace line hook in A's thread; B is a real threading.Thread that is started and
joined inside the hook, so A is suspended in the middle of its line exactly as an interpreter thread switch would leave
it. Nothing depends on time: the schedule is fully determined by the index i.

The points explored are, for every distinct source line of the library that A executes, its first and its last
execution (optionally every k-th execution in between): a window "state changed at line l1, restored at line l2" is
entered through a line that is executed inside the window, so it is hit whatever the history before it.
"""
import sys
import threading

from .core import REPO_SRC


def _in_library(filename):
    return filename.startswith(REPO_SRC)


def trace_points(fn_a):
    """Run fn_a once under the line hook; returns the ordered list of (file, line) of the library lines it executed."""
    seq = []

    def local(frame, event, _arg):
        if event == 'line':
            seq.append((frame.f_code.co_filename, frame.f_lineno))
        return local

    def glob(frame, _event, _arg):
        if _in_library(frame.f_code.co_filename):
            seq.append((frame.f_code.co_filename, frame.f_lineno))
            return local
        return None

    old = sys.gettrace()
    sys.settrace(glob)
    try:
        try:
            fn_a()
        except Exception:  # pylint: disable=broad-except
            pass
    finally:
        sys.settrace(old)
    return seq


def choose_indices(seq, every=None):
    first, last = {}, {}
    for i, loc in enumerate(seq):
        first.setdefault(loc, i)
        last[loc] = i
    idx = set(first.values()) | set(last.values())
    if every:
        idx |= set(range(0, len(seq), every))
    return sorted(idx)


def outcome(fn):
    try:
        return ('OK', fn())
    except Exception as exc:  # pylint: disable=broad-except
        return ('EXC', type(exc).__name__)


def run_preempted(fn_a, fn_b, index):
    """Execute the schedule: A until its index-th library line event, B completely (in another thread), rest of A.
    Returns (outcome A, outcome B, reached) - reached is False when A ended before the point (replay divergence)."""
    count = [0]
    res_b = []
    done = [False]

    def fire():
        done[0] = True
        sys.settrace(None)          # A runs untraced from here on
        thr = threading.Thread(target=lambda: res_b.append(outcome(fn_b)))
        thr.start()
        thr.join()

    def local(frame, event, _arg):
        if event == 'line' and not done[0]:
            if count[0] == index:
                fire()
                return None
            count[0] += 1
        return None if done[0] else local

    def glob(frame, _event, _arg):
        if done[0]:
            return None
        if _in_library(frame.f_code.co_filename):
            if count[0] == index:
                fire()
                return None
            count[0] += 1
            return local
        return None

    old = sys.gettrace()
    sys.settrace(glob)
    try:
        res_a = outcome(fn_a)
    finally:
        sys.settrace(old)
    return res_a, (res_b[0] if res_b else None), done[0]


def explore_pair(fn_a, fn_b, every=None, chunk=None):
    """All one-preemption schedules of (A preempted, B atomic). Yields (index, location, outcome A, outcome B).
    chunk=(k, n) explores only the indices i with position % n == k (to spread one pair over worker processes)."""
    seq = trace_points(fn_a)
    indices = choose_indices(seq, every)
    if chunk:
        indices = [i for pos, i in enumerate(indices) if pos % chunk[1] == chunk[0]]
    for i in indices:
        res_a, res_b, reached = run_preempted(fn_a, fn_b, i)
        if not reached:
            raise RuntimeError(f'replay divergence: thread A ended before its line event {i} of {len(seq)}')
        yield i, seq[i], res_a, res_b


# ---------------------------------------------------------------------------------------------
# two builds in two threads (used by C07 - one shared model -, C09 - two origins -, C08)
# ---------------------------------------------------------------------------------------------

def _pair_functions(job):
    from . import lab, build as B  # pylint: disable=import-outside-toplevel
    case = lab.make_case(job['point'])
    model = case['model']
    fct_a = B.parse_model(model)
    fct_b = fct_a if job.get('shared', True) else B.parse_model(model)

    def mk(delta, fct):
        cfg = dict(case['cfg'], **delta)
        return lambda: [(n, h) for n, _c, h in B._build_once(model, cfg, False, fct)]  # pylint: disable=protected-access
    fn_a, fn_b = mk(job['cfg_a'], fct_a), mk(job['cfg_b'], fct_b)
    if job.get('swap'):
        fn_a, fn_b = fn_b, fn_a
    return fn_a, fn_b


def _judge_schedule(ref_a, ref_b, res_a, res_b):
    out = []
    for which, ref, got in (('preempted-build', ref_a, res_a), ('other-build', ref_b, res_b)):
        if got != ref:
            if got is None:
                kind = 'never-ran'
            elif got[0] == 'EXC':
                kind = f'fails:{got[1]}'
            else:
                kind = 'output-differs'
            out.append((which, kind))
    return out


def pair_task(job):
    """One chunk of the one-preemption schedules of two builds. job: point, cfg_a, cfg_b (deltas on the point's
    configuration), shared (one parsed model for both), swap, chunk=(k, n), every."""
    from .core import Partial  # pylint: disable=import-outside-toplevel
    part = Partial()
    fn_a, fn_b = _pair_functions(job)
    ref_a, ref_b = outcome(fn_a), outcome(fn_b)
    if ref_a[0] != 'OK' or ref_b[0] != 'OK':
        raise RuntimeError(f'sequential reference build fails: {ref_a} {ref_b}')
    for i, loc, res_a, res_b in explore_pair(fn_a, fn_b, job.get('every'), tuple(job['chunk']) if job.get('chunk') else None):
        part.evaluations += 1
        part.states += 1
        part.transitions += 2
        part.nontrivial += 1
        part.extra['python_thread_schedules'] += 1
        bad = _judge_schedule(ref_a, ref_b, res_a, res_b)
        part.outcome('concurrent-builds:as-sequential' if not bad else 'concurrent-builds:differ')
        for which, kind in bad:
            where = loc[0][len(REPO_SRC) + 1:]
            rjob = dict(job, chunk=None)
            part.violation(f'concurrent-builds:{which}:{kind}',
                           f'two builds in two Python threads ({"one shared model" if job.get("shared", True) else "own models"}; '
                           f'configurations {job["cfg_a"]} / {job["cfg_b"]}{" swapped" if job.get("swap") else ""}): '
                           f'with the first thread preempted at its line event {i} ({where}:{loc[1]}) while the other build runs '
                           f'to completion, the {which} {kind} compared with the same build run alone',
                           {'pysched': True, 'job': rjob, 'index': i})
    # the sequential references must not have been disturbed by the exploration itself
    if outcome(fn_a) != ref_a or outcome(fn_b) != ref_b:
        part.violation('concurrent-builds:later-sequential-build-differs', 'after the explored schedules a plain build differs',
                       {'pysched': True, 'job': dict(job, chunk=None), 'index': -1})
    return part


def pair_jobs(specs, nchunks=8):
    jobs = []
    for spec in specs:
        for swap in (False, True):
            for k in range(nchunks):
                jobs.append(dict(spec, swap=swap, chunk=(k, nchunks)))
    return jobs


def judge(case):
    """Replay of one recorded schedule (twice: the same schedule must give the same observation)."""
    job = case['job']
    fn_a, fn_b = _pair_functions(job)
    ref_a, ref_b = outcome(fn_a), outcome(fn_b)
    if case['index'] < 0:
        return []
    seen = []
    for _rep in range(2):
        res_a, res_b, reached = run_preempted(fn_a, fn_b, case['index'])
        if not reached:
            raise RuntimeError('replay divergence')
        seen.append(_judge_schedule(ref_a, ref_b, res_a, res_b))
    if seen[0] != seen[1]:
        raise RuntimeError(f'the same schedule gave two observations: {seen}')
    return [(f'concurrent-builds:{which}:{kind}', 'replayed schedule') for which, kind in seen[0]]
