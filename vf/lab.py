"""E2 - the C++ lab: generated shells are compiled against a mock Dezyne runtime together with an
auto-generated driver that enumerates (port, event, argument), facility subsets, unbound events and
multi-client histories inside one process and prints one JSON line per assertion group."""
import hashlib
import json
import os
import re
import shutil
import subprocess
import tempfile

from . import modelgen as M
from . import build as B
from .core import VERIF, HarnessError

CXX_DIR = os.path.join(VERIF, 'vf', 'cxx')
MOCK_DIR = os.path.join(CXX_DIR, 'mock')
CACHE_DIR = os.path.join(VERIF, '.cache')
CXX = os.environ.get('VF_CXX', 'g++')
BASE_FLAGS = ['-std=c++17', '-O0', '-g0', '-fno-omit-frame-pointer', '-Wreorder', '-Werror=return-type']
SAN_FLAGS = ['-fsanitize=address']
RUN_ENV = {'ASAN_OPTIONS': 'detect_stack_use_after_return=1:detect_leaks=0:abort_on_error=0',
           'UBSAN_OPTIONS': 'print_stacktrace=0'}


def support_ns(cfg):
    return '::' + '::'.join((cfg['prefix'].split('.') if cfg.get('prefix') else []) + ['Dzn'])


def value_type(data):
    """The value type behind an extern's C++ data string ('const verif::T4&' -> 'verif::T4')."""
    return data.replace('const ', '').replace('struct ', '').replace('&', '').strip()


def all_data_types(facts):
    out = []
    for dec in facts.decls:
        # (the class templates Pair / Fn / Num of the exotic spellings are defined in verif_probe.hh)
        if dec.kind == 'extern' and re.fullmatch(r'verif::\w+', value_type(dec.node[2])) and value_type(dec.node[2]) not in out:
            out.append(value_type(dec.node[2]))
    return out


def types_header(facts):
    lines = ['#ifndef VERIF_TYPES_HH', '#define VERIF_TYPES_HH', '#include "verif_probe.hh"', 'namespace verif {']
    for typ in all_data_types(facts):
        lines.append(f'VERIF_DATA_TYPE({typ.split("::", 1)[1]});')
    lines += ['}', '#endif', '']
    return '\n'.join(lines)


# ---------------------------------------------------------------------------------------------
# driver generation
# ---------------------------------------------------------------------------------------------

IN_VALUES = [11, 22, 33, 44, 55, 66, 77, 88, 99, 110, 121, 132]      # distinct values per argument position


def reply_expr(ev):
    if ev.reply[0] == 'enum':
        fields = ev.reply[2]
        return f'{ev.cpp_reply}::{fields[1] if len(fields) > 1 else fields[0]}'
    return {'bool': 'true', 'int': '7', 'void': ''}[ev.reply[0]]


def handler_sig(ev):
    params = ', '.join(f'{f[1]}{"&" if f[2] != "in" else ""} {f[0]}' for f in ev.formals)
    ret = f' -> {ev.cpp_reply}' if ev.reply[0] != 'void' else ''
    return f'({params}){ret}'


def recorder(tag, ev, extra_capture=''):
    """C++ lambda that records a hit, the observed argument values, writes out/inout values and replies."""
    # a recorder bound in an earlier generation (before the user bound the event anew) must never be called again
    body = ['if (gen_ != g_generation) H.hit("STALE-BINDING-OF-AN-EARLIER-GENERATION");', f'H.hit("{tag}");', 'H.args.clear();']
    for f in ev.formals:
        body.append(f'H.args.push_back({f[0]}.v);')
    body.append('H.in_dispatch = pump_.in_dispatch; H.posted_at_call = pump_.posted;')
    for i, f in enumerate(ev.formals):
        if f[2] == 'out':
            body.append(f'{f[0]} = {value_type(f[1])}({1000 + IN_VALUES[i]});')
        elif f[2] == 'inout':
            body.append(f'{f[0]} = {value_type(f[1])}({f[0]}.v + 1000);')
    if ev.reply[0] != 'void':
        body.append(f'return {reply_expr(ev)};')
    return f'[&pump_, gen_ = g_generation{extra_capture}]{handler_sig(ev)} {{ ' + ' '.join(body) + ' }'


class PortCode:
    def __init__(self, port, sem, mc):
        self.p, self.sem, self.mc = port, sem, mc

    @property
    def user(self):
        if self.mc:
            return f'sh_.ProvidesMultiClient{self.p.cap}(client_).port'
        return f'sh_.{"Provides" if self.p.direction == "provides" else "Requires"}{self.p.cap}().port'

    @property
    def comp(self):
        return f'comp_.{self.p.name}'

    def record_side(self, ev):
        prov = self.p.direction == 'provides'
        if (prov and ev.direction == 'in') or (not prov and ev.direction == 'out'):
            return f'{self.comp}.{ev.direction}.{ev.name}'
        return f'{self.user}.{ev.direction}.{ev.name}'

    def fire_side(self, ev):
        prov = self.p.direction == 'provides'
        if (prov and ev.direction == 'in') or (not prov and ev.direction == 'out'):
            return f'{self.user}.{ev.direction}.{ev.name}'
        return f'{self.comp}.{ev.direction}.{ev.name}'

    def tag(self, ev):
        return f'{self.p.name}.{ev.direction}.{ev.name}'

    def via_pump(self, ev):
        """True if this event must travel through the dispatcher (C02)."""
        if self.sem != 'MTS':
            return False
        prov = self.p.direction == 'provides'
        return (prov and ev.direction == 'in') or (not prov and ev.direction == 'out')


def gen_driver(facts, cfg, include_source=True):
    sns = support_ns(cfg)
    shell_t = '::' + '::'.join(list(facts.scope) + [facts.base + cfg.get('suffix', 'Shell')])
    comp_t = '::' + '::'.join(facts.enc.fqn)
    create = cfg.get('fac', 'create') == 'create'
    mc = cfg.get('mc')
    ports = [PortCode(p, cfg['sem'][p.name], bool(mc and mc['port'] == p.name)) for p in facts.provides + facts.requires]
    mcport = [pc for pc in ports if pc.mc]
    mcport = mcport[0] if mcport else None
    out = []
    w = out.append
    w(f'#include "{facts.base}{cfg.get("suffix", "Shell")}.{"cc" if include_source else "hh"}"')
    w('#include "verif_probe.hh"')
    w('#include <type_traits>\n#include <memory>\n#include <set>\n#include <deque>\n#include <sstream>\n#include <algorithm>')
    w(f'using Shell = {shell_t}; using Comp = {comp_t};')
    w('static verif::Hits H;')
    # client identifiers related by prefix and by letter case
    w('static const std::vector<std::string> CLIENTS = {"A", "AB", "a", "B"};')
    w('// registration order of the clients (a permutation of the indices into CLIENTS); identity unless a check varies it')
    w('static std::vector<int> g_order = {0, 1, 2, 3};')
    # ---- environment
    w('struct Env {')
    w('  dzn::locator user_loc; dzn::pump user_pump; dzn::runtime user_rt; verif::Service svc;')
    for p in facts.injected:
        w(f'  {p.cpp_itf} inj_{p.name}{{{{{{"inj",nullptr,nullptr,nullptr}},{{"",nullptr,nullptr,nullptr}}}}}};')
    w('  Env(bool with_pump, bool with_rt, bool with_svc) {')
    w('    if (with_pump) user_loc.set(user_pump); if (with_rt) user_loc.set(user_rt); if (with_svc) user_loc.set(svc);')
    seen_itf = set()
    for p in facts.injected:
        if p.cpp_itf not in seen_itf:
            seen_itf.add(p.cpp_itf)
            w(f'    user_loc.set(inj_{p.name});')
    w('  }')
    w('};')
    w('template <class F> static bool throws(F f, std::string& what, bool* is_runtime_error = nullptr) {')
    w('  try { f(); return false; } catch (const std::runtime_error& e) { what = e.what(); if (is_runtime_error) *is_runtime_error = true; return true; }')
    w('  catch (const std::exception& e) { what = e.what(); if (is_runtime_error) *is_runtime_error = false; return true; } }')
    w('template <class T, class = void> struct has_locator : std::false_type {};')
    w('template <class T> struct has_locator<T, decltype((void)std::declval<T&>().Locator())> : std::true_type {};')
    log_arg = 'log_, ' if mcport else ''
    # REPRESENTATION: the fixture hands the shell a TEMPORARY logger, brace-initialised with three functors (the form of
    # "Example 1" in the generated header) - the shell has to keep its own copy; the instance name is a temporary
    # std::string as well
    w('static int g_generation = 0; static std::string g_round;   // EMBEDDING: the user binds all events anew after final construction')
    w('static long g_log_calls = 0;')
    w('static bool g_client_handler_throws = false;   // FAILURE PATHS: the out-event handlers of the clients throw after recording the hit')
    w('static long g_log_throw_at = -1;   // FAILURE PATHS: the k-th call of the user\'s log sink throws')
    w('static void log_sink_() { if (++g_log_calls == g_log_throw_at) throw std::runtime_error("log sink failed"); }')
    temp_log = (f'{sns}::ILog{{[](const std::string&){{ log_sink_(); }}, [](const std::string&){{ log_sink_(); }}, '
                '[](const std::string&){ log_sink_(); }}, ') if mcport else ''
    w('struct Fix { Env env; std::unique_ptr<Shell> sh; Comp* comp = nullptr; dzn::pump* pump = nullptr;')
    w(f'  Fix() : env({"false, false, true" if create else "true, true, true"}) {{')
    w('    verif::registry().reset();')
    w(f'    sh.reset(new Shell(env.user_loc, {temp_log}std::string("in") + "st"));')
    w('    verif::scrub_stack();')
    w('    comp = static_cast<Comp*>(verif::registry().component);')
    if create:
        w('    pump = &sh->Locator().template get<dzn::pump>();')
    else:
        w('    pump = &env.user_pump;')
    w('  }')
    w('};')
    # ---- event table
    events = []      # (PortCode, EventFacts)
    for pc in ports:
        for ev in pc.p.events:
            events.append((pc, ev))
    # ---- bind_all
    w('// bind a recorder on the record side of every event; `skip` = index of one event left unbound')
    w('static void bind_all(Shell& sh_, Comp& comp_, dzn::pump& pump_, int skip, int nclients) {')
    w('  int idx = 0; (void)idx; (void)nclients;')
    for pc, ev in events:
        if pc.mc and ev.direction == 'out':
            w('  for (int ci = 0; ci < nclients; ++ci) { const std::string client_ = CLIENTS[g_order[ci]];')
            w(f'    if (skip != idx) {pc.record_side(ev)} = ' +
              recorder(pc.tag(ev) + '@', ev, ', client_').replace(f'H.hit("{pc.tag(ev)}@")', f'H.hit("{pc.tag(ev)}@" + client_); if (g_client_handler_throws) throw std::runtime_error("the handler of the client failed")') + ';')
            w('    ++idx; }')
        elif pc.mc:
            w(f'  if (skip != idx) {pc.record_side(ev)} = {recorder(pc.tag(ev), ev)}; ++idx;')
            w('  for (int ci = 0; ci < nclients; ++ci) { (void)sh_.ProvidesMultiClient' + pc.p.cap + '(CLIENTS[g_order[ci]]); }')
        else:
            w(f'  if (skip != idx) {pc.record_side(ev)} = {recorder(pc.tag(ev), ev)}; ++idx;')
    if mcport and not any(pc.mc for pc, _ in events):
        pass
    w('}')
    w('// bind (recorder) or unbind (empty function) the record side of the k-th binding only')
    w('static void set_binding(Shell& sh_, Comp& comp_, dzn::pump& pump_, int k, int nclients, bool bind_) {')
    w('  int idx = 0; (void)idx; (void)nclients; (void)sh_; (void)comp_; (void)pump_; (void)bind_;')
    for pc, ev in events:
        if pc.mc and ev.direction == 'out':
            w('  for (int ci = 0; ci < nclients; ++ci) { const std::string client_ = CLIENTS[g_order[ci]];')
            w(f'    if (k == idx) {{ if (bind_) {pc.record_side(ev)} = ' +
              recorder(pc.tag(ev) + '@', ev, ', client_').replace(f'H.hit("{pc.tag(ev)}@")', f'H.hit("{pc.tag(ev)}@" + client_)') +
              f'; else {pc.record_side(ev)} = nullptr; }}')
            w('    ++idx; }')
        else:
            w(f'  if (k == idx) {{ if (bind_) {pc.record_side(ev)} = {recorder(pc.tag(ev), ev)}; else {pc.record_side(ev)} = nullptr; }} ++idx;')
    w('}')
    w('static int count_bindings(int nclients) { int n = 0; (void)nclients;')
    for pc, ev in events:
        if pc.mc and ev.direction == 'out':
            w('  n += nclients;')
        else:
            w('  n += 1;')
    w('  return n; }')
    w('static std::string binding_name(int k, int nclients) { int idx = 0; (void)nclients;')
    for pc, ev in events:
        if pc.mc and ev.direction == 'out':
            w(f'  for (int ci = 0; ci < nclients; ++ci) {{ if (k == idx) return "{pc.tag(ev)}@" + CLIENTS[g_order[ci]]; ++idx; }}')
        else:
            w(f'  if (k == idx) return "{pc.tag(ev)}"; ++idx;')
    w('  return "?"; }')
    # ---- fire functions (C01 + C02)
    for pc, ev in events:
        fname = f'fire_{pc.p.name}_{ev.direction}_{ev.name}'
        w(f'__attribute__((noinline)) static void {fname}_call(Shell& sh_, Comp& comp_, const std::string& client_, std::string& res) {{')
        w('  (void)sh_; (void)comp_; (void)client_;')
        args = []
        for i, f in enumerate(ev.formals):
            w(f'  {value_type(f[1])} {f[0]}({IN_VALUES[i]});')
            args.append(f[0])
        call = f'{pc.fire_side(ev)}({", ".join(args)})'
        if ev.reply[0] != 'void':
            w(f'  auto r_ = {call}; res += (r_ == {reply_expr(ev)}) ? "reply-ok;" : "reply-WRONG;";')
        else:
            w(f'  {call};')
        for i, f in enumerate(ev.formals):
            if f[2] == 'out':
                w(f'  res += ({f[0]}.v == {1000 + IN_VALUES[i]}) ? "" : "out-arg-{i}-not-carried-back;";')
            elif f[2] == 'inout':
                w(f'  res += ({f[0]}.v == {1000 + IN_VALUES[i]}) ? "" : "inout-arg-{i}-not-carried-back;";')
        # overwrite the argument variables before returning (deferred closures must have copied them)
        for f in ev.formals:
            w(f'  {f[0]} = {value_type(f[1])}(-1);')
        w('}')
        w(f'static void {fname}(Shell& sh_, Comp& comp_, dzn::pump& pump_, const std::string& client_, const std::string& expect_tag) {{')
        w('  H.reset(); std::string res; unsigned long posted0 = pump_.posted; size_t queued0 = pump_.q.size();')
        w(f'  try {{ {fname}_call(sh_, comp_, client_, res); }} catch (const std::bad_function_call&) {{ res += "UNROUTED-WRONG(empty std::function);"; }}')
        via = pc.via_pump(ev)
        deferred = via and pc.p.direction == 'requires'
        subj = pc.tag(ev)
        if deferred:
            w('  bool deferred_ok = H.log.empty() && pump_.q.size() == queued0 + 1 && pump_.posted == posted0 + 1;')
            w(f'  verif::emit("C02", "mts-requires-out-deferred", "{subj}", deferred_ok, "hits-before-drain=" + H.joined());')
            w('  verif::scrub_stack(); try { pump_.drain(); } catch (const std::bad_function_call&) { res += "UNROUTED-WRONG(empty std::function behind the dispatcher);"; pump_.q.clear(); pump_.in_dispatch = false; }')
            w(f'  verif::emit("C02", "mts-requires-out-in-dispatch", "{subj}", H.in_dispatch, "");')
        elif via:
            w(f'  verif::emit("C02", "mts-provides-in-dispatched", "{subj}", H.in_dispatch && pump_.posted == posted0 + 1 && pump_.q.empty(), '
              '"in_dispatch=" + std::to_string(H.in_dispatch) + " posted+=" + std::to_string(pump_.posted - posted0));')
        else:
            kind = 'sts-no-dispatcher' if pc.sem == 'STS' else 'outward-direct'
            w(f'  verif::emit("C02", "{kind}", "{subj}", !H.in_dispatch && pump_.posted == posted0 && pump_.q.size() == queued0, '
              '"posted+=" + std::to_string(pump_.posted - posted0));')
        w('  bool once = H.log.size() == 1 && H.log[0] == expect_tag;')
        exp_args = ' && '.join([f'H.args.size() == {len(ev.formals)}'] +
                               [f'H.args[{i}] == {IN_VALUES[i]}' for i, f in enumerate(ev.formals) if f[2] != 'out'])
        w(f'  bool args_ok = once && {exp_args};')
        w(f'  verif::emit("C01", "route", "{subj}" + (client_.empty() ? std::string() : "@" + client_) + g_round, once && args_ok && res.find("WRONG") == std::string::npos && res.find("not-carried") == std::string::npos, '
          '"hits=" + H.joined() + " " + res + (args_ok ? "" : " args-wrong"));')
        w('}')
    # ---- main
    w('int main() {')
    w('  std::setvbuf(stdout, nullptr, _IOLBF, 0);')
    w('  dzn::meta parent{"parent", "P", nullptr, {}, {}, {}};')
    # standard scenario
    w('  { // ---------- standard scenario: C01, C02')
    w('    Fix fx; Shell& sh_ = *fx.sh; Comp& comp_ = *fx.comp; dzn::pump& pump_ = *fx.pump;')
    ncl = 2 if mcport else 0
    w(f'    bind_all(sh_, comp_, pump_, -1, {ncl});')
    w('    std::string what;')
    w('    bool fc_throws = throws([&]{ sh_.FinalConstruct(&parent); }, what);')
    w('    verif::emit("C10", "fully-bound", "FinalConstruct", !fc_throws && comp_.dzn_meta.parent == &parent, what);')
    w('    verif::emit("C01", "instance-name", "dzn_meta.name", comp_.dzn_meta.name == "inst", comp_.dzn_meta.name);')
    for pc in ports:
        p = pc.p
        strict = f'{sns}::{"Mts" if pc.sem == "MTS" else "Sts"}<{p.cpp_itf}>'
        if pc.mc:
            acc = f'std::declval<Shell&>().ProvidesMultiClient{p.cap}(std::declval<const std::string&>())'
        else:
            acc = f'std::declval<Shell&>().{"Provides" if p.direction == "provides" else "Requires"}{p.cap}()'
        w(f'    verif::emit("C02", "accessor-type", "{p.name}", std::is_same<decltype({acc}), {strict}>::value, "{pc.sem}");')
        if pc.sem == 'STS':
            w(f'    verif::emit("C02", "sts-is-component-port", "{p.name}", &{pc.user} == &{pc.comp}, "");')
        elif not pc.mc:
            w(f'    verif::emit("C02", "mts-is-own-port", "{p.name}", &{pc.user} != &{pc.comp}, "");')
    # every event is fired twice: in declaration order and then again in reverse order (one-shot state,
    # order dependence)
    for pc, ev in events + list(reversed(events)):
        fname = f'fire_{pc.p.name}_{ev.direction}_{ev.name}'
        if pc.mc:
            if ev.direction == 'in':
                w(f'    for (int ci = 0; ci < {ncl}; ++ci) {fname}(sh_, comp_, pump_, CLIENTS[ci], "{pc.tag(ev)}");')
            # out events of the multi-client port are C04's business (selection dependent)
        else:
            w(f'    {fname}(sh_, comp_, pump_, "", "{pc.tag(ev)}");')
    # EMBEDDING: the user binds every event anew AFTER final construction (a handler swapped, a peer connected later): the
    # events must reach the new handlers, never the ones bound before
    w(f'    ++g_generation; g_round = "@rebound-after-final-construction"; bind_all(sh_, comp_, pump_, -1, {ncl});')
    for pc, ev in events:
        fname = f'fire_{pc.p.name}_{ev.direction}_{ev.name}'
        if pc.mc:
            if ev.direction == 'in':
                w(f'    for (int ci = 0; ci < {ncl}; ++ci) {fname}(sh_, comp_, pump_, CLIENTS[ci], "{pc.tag(ev)}");')
        else:
            w(f'    {fname}(sh_, comp_, pump_, "", "{pc.tag(ev)}");')
    w('    g_round = "";')
    # reentrancy: while the wrapped component handles an event coming in through a port, it raises an event going out
    # through the same port; both must be routed (exactly once each, the inner one nested in the outer one)
    for pc in ports:
        if pc.mc:
            continue        # the multi-client port: see the inner-out-event histories of C04
        prov = pc.p.direction == 'provides'
        inbound = [e for e in pc.p.events if (e.direction == 'in') == prov]       # recorded at the component
        outbound = [e for e in pc.p.events if (e.direction == 'in') != prov]      # fired by the component
        if not inbound or not outbound:
            continue
        for k, ev in enumerate(inbound):
            back = outbound[k % len(outbound)]
            fname = f'fire_{pc.p.name}_{ev.direction}_{ev.name}'
            decl = ' '.join(f'{value_type(f[1])} {f[0]}({IN_VALUES[i]});' for i, f in enumerate(back.formals))
            callb = f'{pc.fire_side(back)}({", ".join(f[0] for f in back.formals)})'
            argsf = ', '.join(f[0] for f in ev.formals)
            body = (f'auto r_ = saved_({argsf}); raise_back_(); return r_;' if ev.reply[0] != 'void'
                    else f'saved_({argsf}); raise_back_();')
            w(f'    {{ auto raise_back_ = [&]{{ {decl} (void){callb}; }};')
            w(f'      auto saved_ = {pc.record_side(ev)}; {pc.record_side(ev)} = [&, saved_]{handler_sig(ev)} {{ {body} }};')
            w(f'      H.reset(); std::string res_; try {{ {fname}_call(sh_, comp_, "", res_); pump_.drain(); }} catch (const std::bad_function_call&) {{ res_ += "UNROUTED-WRONG(empty std::function);"; pump_.q.clear(); pump_.in_dispatch = false; }}')
            w(f'      verif::emit("C01", "route-reentrant", "{pc.tag(ev)}>{pc.tag(back)}", H.log.size() == 2 && H.log[0] == "{pc.tag(ev)}" && H.log[1] == "{pc.tag(back)}" && res_.find("WRONG") == std::string::npos && res_.find("not-carried") == std::string::npos, "hits=" + H.joined() + " " + res_);')
            w(f'      {pc.record_side(ev)} = saved_; }}')
    if mcport:
        w(f'    {{ const Shell& csh_ = sh_; auto ids_ = csh_.Get{mcport.p.cap}ClientIdentifiers(); std::string j_; for (auto& x_ : ids_) j_ += x_ + ",";')
        w(f'      verif::emit("C04", "client-identifiers", "{mcport.p.name}", ids_.size() == {ncl} && ids_[0] == "A" && (ids_.size() < 2 || ids_[1] == "AB"), j_); }}')
    w('    verif::emit("C01", "no-residue", "pump", pump_.q.empty(), "queue=" + std::to_string(pump_.q.size()));')
    w('  }')
    # C09
    w('  // ---------- C09: facility ownership for every subset of {pump, runtime, service} in the user locator')
    w('  for (int mask = 0; mask < 8; ++mask) {')
    w('    bool wp = mask & 1, wr = mask & 2, ws = mask & 4; std::string subj = std::string(wp ? "pump " : "") + (wr ? "runtime " : "") + (ws ? "service" : "");')
    w('    Env env(wp, wr, ws); auto before = env.user_loc.services; verif::registry().reset();')
    if mcport:
        w(f'    {sns}::ILog log_;')
    w('    std::unique_ptr<Shell> sh; std::string what; bool is_rt = false;')
    w(f'    bool thrown = throws([&]{{ sh.reset(new Shell(env.user_loc, {log_arg}"x")); }}, what, &is_rt);')
    if create:
        w('    bool expect_throw = wp || wr;')
    else:
        w('    bool expect_throw = !wp || !wr;')
    w('    verif::emit("C09", "construction-verdict", subj, thrown == expect_throw && (!thrown || is_rt), std::string(thrown ? "threw: " : "constructed ") + what);')
    w('    verif::emit("C09", "user-locator-unmodified", subj, env.user_loc.services == before, "");')
    w('    if (!thrown && !expect_throw) {')
    w('      Comp* comp = static_cast<Comp*>(verif::registry().component); (void)comp;')
    if create:
        w('      dzn::locator& own = sh->Locator();')
        w('      verif::emit("C09", "component-gets-shell-locator", subj, verif::registry().locator == &own && &comp->dzn_locator == &own, "");')
        w('      dzn::pump* p = own.try_get<dzn::pump>(); dzn::runtime* r = own.try_get<dzn::runtime>();')
        w('      verif::emit("C09", "own-facilities-in-locator", subj, p && r && p != &env.user_pump && r != &env.user_rt && verif::registry().pump == p && verif::registry().runtime == r, "");')
        w('      bool all_user = true; for (auto& kv : before) { auto it = own.services.find(kv.first); if (it == own.services.end() || it->second != kv.second) all_user = false; }')
        w('      verif::emit("C09", "locator-holds-exactly-facilities-plus-user-services", subj, all_user && own.services.size() == before.size() + 2, "size=" + std::to_string(own.services.size()));')
        w('      verif::emit("C09", "locator-accessor-present", subj, has_locator<Shell>::value && &sh->Locator() == &own, "");')
    else:
        w('      verif::emit("C09", "component-gets-user-locator", subj, verif::registry().locator == &env.user_loc && &comp->dzn_locator == &env.user_loc, "");')
        w('      verif::emit("C09", "uses-user-dispatcher", subj, verif::registry().pump == &env.user_pump, "");')
        w('      verif::emit("C09", "no-locator-accessor", subj, !has_locator<Shell>::value, "");')
    w('    }')
    w('  }')
    if not create:
        # the dispatcher actually used for an MTS event must be the user's
        w('  { Fix fx; verif::emit("C09", "import-dispatcher-identity", "fixture", fx.pump == &fx.env.user_pump, ""); }')
    # C10
    w('  // ---------- C10: every single event left unbound')
    ncl10 = [0, 1, 2, 3, 4] if mcport else [0]     # 0: final construction with no client registered at all
    w(f'  for (int ncl : {{{", ".join(map(str, ncl10))}}}) {{')
    w('    int n = count_bindings(ncl);')
    w('    for (int k = 0; k < n; ++k) {')
    w('      Fix fx; bind_all(*fx.sh, *fx.comp, *fx.pump, k, ncl); std::string what; bool is_rt = false;')
    w('      bool thrown = throws([&]{ fx.sh->FinalConstruct(&parent); }, what, &is_rt);')
    w('      verif::emit("C10", "unbound-detected", binding_name(k, ncl) + "/clients=" + std::to_string(ncl), thrown && is_rt, what);')
    w('      // a second attempt with the event still unbound must fail as well (no state may survive the exception)')
    w('      // (REPRESENTATION: the retry uses the other form of the call - the parent argument omitted)')
    w('      bool again = throws([&]{ fx.sh->FinalConstruct(); }, what, &is_rt);')
    w('      verif::emit("C10", "unbound-detected-on-retry", binding_name(k, ncl) + "/clients=" + std::to_string(ncl), again, what);')
    w('    }')
    w('    { Fix fx; bind_all(*fx.sh, *fx.comp, *fx.pump, -1, ncl); std::string what;')
    w('      bool thrown = throws([&]{ fx.sh->FinalConstruct(&parent); }, what);')
    w('      verif::emit("C10", "fully-bound", "clients=" + std::to_string(ncl), !thrown && fx.comp->dzn_meta.parent == &parent, what);')
    w('      bool thrown_null = false; { Fix fy; bind_all(*fy.sh, *fy.comp, *fy.pump, -1, ncl); thrown_null = throws([&]{ fy.sh->FinalConstruct(); }, what); verif::emit("C10", "default-parent", "nullptr", !thrown_null && fy.comp->dzn_meta.parent == nullptr, what); }')
    if mcport:
        w('      bool late = throws([&]{ (void)fx.sh->ProvidesMultiClient' + mcport.p.cap + '("LATE"); }, what);')
        w('      verif::emit("C10", "no-registration-after-final-construct", "clients=" + std::to_string(ncl), late, what);')
        w('      // ... however often it is tried, with identifiers sorting before / between / after the registered ones,')
        w('      // and the refused attempts must not leave a client behind')
        w('      { bool all_refused = true; std::string tried;')
        w('        for (const char* id_ : {"LATE", "0", "zz", "LATE", "AA", "0"}) { std::string w2; bool t_ = throws([&]{ (void)fx.sh->ProvidesMultiClient' + mcport.p.cap + '(id_); }, w2); if (!t_) { all_refused = false; tried += std::string(id_) + " accepted; "; } }')
        w(f'        const Shell& csh_ = *fx.sh; auto ids_ = csh_.Get{mcport.p.cap}ClientIdentifiers(); std::string j_; for (auto& x_ : ids_) j_ += x_ + ",";')
        w('        verif::emit("C10", "refused-registrations-leave-no-client", "clients=" + std::to_string(ncl), all_refused && (int)ids_.size() == ncl, tried + "identifiers=" + j_); }')
        w('      if (ncl > 0) { bool known = throws([&]{ (void)fx.sh->ProvidesMultiClient' + mcport.p.cap + '(CLIENTS[0]); }, what);')
        w('        verif::emit("C10", "registered-client-still-accessible", "clients=" + std::to_string(ncl), !known, what); }')
    w('    }')
    w('  }')
    # C10 histories: every sequence of unbind(k) / bind(k) / FinalConstruct over three representative bindings (first, last,
    # a client's out-event or the middle one) to depth VF_C10_DEPTH, each replayed on a fresh shell; reference state = set
    # of currently unbound bindings: until it has succeeded once, final construction fails iff that set is not empty
    ncl_h = 2 if mcport else 0
    w('  { const int ncl = ' + str(ncl_h) + '; const int n = count_bindings(ncl); std::vector<int> K;')
    w('    for (int k : {0, n - 1}) if (k >= 0 && k < n && std::find(K.begin(), K.end(), k) == K.end()) K.push_back(k);')
    w('    { int extra = n / 2; for (int k = 0; k < n; ++k) if (binding_name(k, ncl).find("@") != std::string::npos) { extra = k; break; }')
    w('      if (n > 0 && std::find(K.begin(), K.end(), extra) == K.end()) K.push_back(extra); }')
    w('    const int DEPTH = getenv("VF_C10_DEPTH") ? atoi(getenv("VF_C10_DEPTH")) : 5; long histories = 0, failures[2] = {0, 0}; std::string first_fail[2];')
    w('    // op: 0 = FinalConstruct, 1 + 2*i = unbind K[i], 2 + 2*i = bind K[i]')
    w('    auto opname = [&](int op) { return op == 0 ? std::string("FinalConstruct") : std::string(op % 2 ? "unbind(" : "bind(") + binding_name(K[(op - 1) / 2], ncl) + ")"; };')
    w('    std::vector<std::vector<int>> level{{}};')
    w('    for (int d = 1; d <= DEPTH && !K.empty(); ++d) { std::vector<std::vector<int>> next;')
    w('      for (auto& h : level) { std::set<int> unbound; for (int op : h) { if (op == 0) continue; int k = K[(op - 1) / 2]; if (op % 2) unbound.insert(k); else unbound.erase(k); }')
    w('        for (int op = 0; op <= 2 * (int)K.size(); ++op) {')
    w('          if (op > 0) { bool is_unbound = unbound.count(K[(op - 1) / 2]) > 0; if ((op % 2 == 1) == is_unbound) continue; }   // skip no-ops')
    w('          auto hh = h; hh.push_back(op);')
    w('          if (op != 0) { if (d < DEPTH) next.push_back(hh); continue; }')
    w('          // replay hh on a fresh shell; judge every FinalConstruct until the first one that is expected to succeed')
    w('          ++histories; Fix fx; bind_all(*fx.sh, *fx.comp, *fx.pump, -1, ncl); std::set<int> ub; bool stop = false; std::string trace;')
    w('          for (size_t i = 0; i < hh.size() && !stop; ++i) { int o = hh[i]; trace += opname(o) + " ";')
    w('            if (o == 0) { std::string what; bool thrown = throws([&]{ fx.sh->FinalConstruct(&parent); }, what);')
    w('              bool expect_throw = !ub.empty();')
    w('              if (thrown != expect_throw || (!thrown && fx.comp->dzn_meta.parent != &parent)) { int kind = thrown ? 1 : 0; ++failures[kind]; if (first_fail[kind].empty()) first_fail[kind] = "[" + trace + "] final construction " + (thrown ? "failed (" + what + ")" : "returned") + " with " + std::to_string(ub.size()) + " binding(s) unbound"; stop = true; }')
    w('              if (!expect_throw) stop = true; }')
    w('            else { int k = K[(o - 1) / 2]; set_binding(*fx.sh, *fx.comp, *fx.pump, k, ncl, o % 2 == 0); if (o % 2) ub.insert(k); else ub.erase(k); } }')
    w('          if (!unbound.empty() && d < DEPTH) next.push_back(hh);   // a failed final construction may be followed by more')
    w('        } }')
    w('      level.swap(next); }')
    w('    verif::emit("C10", "bind-unbind-histories", "never-returns-with-an-event-unbound/clients=" + std::to_string(ncl), failures[0] == 0, "histories=" + std::to_string(histories) + " failures=" + std::to_string(failures[0]) + " " + first_fail[0]);')
    w('    verif::emit("C10", "bind-unbind-histories", "succeeds-once-everything-is-bound/clients=" + std::to_string(ncl), failures[1] == 0, "histories=" + std::to_string(histories) + " failures=" + std::to_string(failures[1]) + " " + first_fail[1]);')
    w('  }')
    if mcport:
        # C10 fault injection: the user's log sink throws at its k-th call, for EVERY k of the sequence [register two clients
        # and bind everything (one out-event of a client left out / nothing left out), FinalConstruct]; the failed step is
        # repeated once with a healthy sink; at the end final construction must have detected the unbound event / succeeded
        w('  { const int ncl = 2; int miss_idx = -1; for (int k = 0; k < count_bindings(ncl); ++k) if (binding_name(k, ncl).find("@") != std::string::npos) { miss_idx = k; break; }')
        w('    long ncalls = 0; { Fix fx; g_log_calls = 0; g_log_throw_at = -1; bind_all(*fx.sh, *fx.comp, *fx.pump, -1, ncl); std::string w0; (void)throws([&]{ fx.sh->FinalConstruct(&parent); }, w0); ncalls = g_log_calls; }')
        w('    long bad = 0, runs = 0; std::string first;')
        w('    for (int miss : {-1, miss_idx}) for (long k = 1; k <= ncalls + 1; ++k) { if (miss == -1 && miss_idx == -1 && false) continue; ++runs;')
        w('      Fix fx; g_log_calls = 0; g_log_throw_at = k; std::string note;')
        w('      auto healthy_retry = [&](const std::function<void()>& step) { try { step(); } catch (const std::runtime_error& e) { if (std::string(e.what()) != "log sink failed") throw; g_log_throw_at = -1; note += "(sink failed, step repeated) "; step(); } };')
        w('      bool fc_threw = false; std::string what;')
        w('      try { healthy_retry([&]{ bind_all(*fx.sh, *fx.comp, *fx.pump, miss, ncl); });')
        w('            healthy_retry([&]{ fx.sh->FinalConstruct(&parent); }); }')
        w('      catch (const std::exception& e) { fc_threw = true; what = e.what(); }')
        w('      g_log_throw_at = -1;')
        w('      bool ok = (miss >= 0) ? fc_threw : !fc_threw;')
        w('      if (!ok) { ++bad; if (first.empty()) first = "log sink throws at call " + std::to_string(k) + " " + note + (miss >= 0 ? "with " + binding_name(miss, ncl) + " unbound: final construction returned" : "everything bound: final construction failed: " + what); } }')
        w('    verif::emit("C10", "log-sink-fault-injection", "clients=2", bad == 0, "fault points=" + std::to_string(ncalls) + " runs=" + std::to_string(runs) + " failures=" + std::to_string(bad) + " " + first);')
        w('  }')
        out.extend(gen_c04(facts, cfg, mcport, events))
    w('  verif::emit("LAB", "done", "main", true, "");')
    w('  return 0;')
    w('}')
    return '\n'.join(out) + '\n'


def gen_c04(facts, cfg, mcport, events):
    """Multi-client histories: BFS over {claim(c)->reply r, release(c), other(c)} with an out-event probe."""
    mc = cfg['mc']
    p = mcport.p
    claim = [e for e in p.events if e.name == mc['claim']][0]
    release = [e for e in p.events if e.name == mc['release']][0]
    others = [e for e in p.ins() if e.name not in (mc['claim'], mc['release'])]
    outs = p.outs()
    fields = claim.reply[2]
    enum_t = claim.cpp_reply
    out = []
    w = out.append

    def args_decl(ev):
        return ' '.join(f'{value_type(f[1])} {f[0]}({IN_VALUES[i]});' for i, f in enumerate(ev.formals))

    def args_call(ev):
        return ', '.join(f[0] for f in ev.formals)

    w('  // ---------- C04: multi-client histories')
    w('  {')
    w(f'    const int NF = {len(fields)}; const int GRANT = {mc["grant_idx"]};')
    w(f'    static const {enum_t} FIELDS[] = {{{", ".join(enum_t + "::" + f for f in fields)}}};')
    w('    // op encoding: kind*16 + client*4 + reply ; kind 0 = claim, 1 = release, 2.. = other in-events')
    w('    struct Outcome { bool ok = true; std::string detail; std::string state; };')
    w('    auto run = [&](const std::vector<int>& hist, int ncl) -> Outcome {')
    w('      Outcome oc; std::string last_probe; Fix fx; Shell& sh_ = *fx.sh; Comp& comp_ = *fx.comp; dzn::pump& pump_ = *fx.pump;')
    w('      bind_all(sh_, comp_, pump_, -1, ncl); sh_.FinalConstruct(&parent);')
    w('      int scripted = 0;')
    oev0 = outs[0]
    w('      // the component may raise an out-event of the port WHILE it handles an in-event of a client (inner = true)')
    w('      bool inner = false;')
    w('      auto raise_inner = [&]{ ' + args_decl(oev0) + f' comp_.{p.name}.out.{oev0.name}({args_call(oev0)}); }};')
    w(f'      comp_.{p.name}.in.{claim.name} = [&]{handler_sig(claim)} {{ H.hit("{mcport.tag(claim)}"); H.in_dispatch = pump_.in_dispatch; ' +
      ' '.join(f'{f[0]} = {value_type(f[1])}({1000 + IN_VALUES[i]});' for i, f in enumerate(claim.formals) if f[2] != 'in') +
      ' if (inner) raise_inner(); return FIELDS[scripted]; };')
    for ev_ in [release] + others:
        call_ = f'saved_({args_call(ev_)})'
        body_ = (f'auto r_ = {call_}; if (inner) raise_inner(); return r_;' if ev_.reply[0] != 'void'
                 else f'{call_}; if (inner) raise_inner();')
        w(f'      {{ auto saved_ = comp_.{p.name}.in.{ev_.name}; comp_.{p.name}.in.{ev_.name} = [&, saved_]{handler_sig(ev_)} {{ {body_} }}; }}')
    w('      // three-valued reference model. I1: a newer grant overrules (single sel, denied claims and foreign')
    w('      // releases change nothing). I2: S = clients whose MOST RECENT claim was granted and who have not released')
    w('      // since. I3: L = like S but a denied claim does not cancel an earlier grant. Acceptable = union.')
    w('      int sel = -1; std::set<int> S, L;')
    w('      // deliveries of ONE out-event judged against the CURRENT reference state')
    w('      auto acceptable = [&](const std::vector<std::string>& deliveries, std::string& why) {')
    w('        std::set<std::string> who; bool nobody_ok = false;')
    w('        if (sel < 0) nobody_ok = true; else who.insert(CLIENTS[sel]);')
    w('        if (S.empty()) nobody_ok = true; for (int h : S) who.insert(CLIENTS[h]);')
    w('        if (L.empty()) nobody_ok = true; for (int h : L) who.insert(CLIENTS[h]);')
    w(f'        std::string pre = "{mcport.tag(outs[0])}@"; bool good;')
    w('        if (deliveries.empty()) good = nobody_ok;')
    w('        else if (deliveries.size() == 1) good = deliveries[0].compare(0, pre.size(), pre) == 0 && who.count(deliveries[0].substr(pre.size())) > 0;')
    w('        else good = false;')
    w('        if (!good) { std::ostringstream os; os << "delivered to ["; for (auto& d : deliveries) os << d << " "; os << "], acceptable={"; for (auto& x : who) os << x; os << (nobody_ok ? ",nobody}" : "}"); why = os.str(); }')
    w('        return good; };')
    w('      auto probe = [&](const std::string& when) {')
    oev = outs[0]
    w('        H.reset(); ' + args_decl(oev) + f' comp_.{p.name}.out.{oev.name}({args_call(oev)});')
    w('        std::set<std::string> who; bool nobody_ok = false;')
    w('        if (sel < 0) nobody_ok = true; else who.insert(CLIENTS[sel]);')
    w('        if (S.empty()) nobody_ok = true; for (int h : S) who.insert(CLIENTS[h]);')
    w('        if (L.empty()) nobody_ok = true; for (int h : L) who.insert(CLIENTS[h]);')
    w('        bool good;')
    w('        if (H.log.empty()) good = nobody_ok;')
    w(f'        else if (H.log.size() == 1) {{ std::string pre = "{mcport.tag(oev)}@"; good = H.log[0].compare(0, pre.size(), pre) == 0 && who.count(H.log[0].substr(pre.size())) > 0; }}')
    w('        else good = false;')
    w('        last_probe = H.joined();')
    w('        if (!good) { oc.ok = false; std::ostringstream os; os << when << ": out-event ' + oev.name + ' delivered to [" << H.joined() << "], acceptable={"; for (auto& x : who) os << x; os << (nobody_ok ? ",nobody}" : "}"); if (oc.detail.empty()) oc.detail = os.str(); }')
    w('      };')
    w('      probe("initially");')
    w('      for (size_t i = 0; i < hist.size(); ++i) {')
    w('        if (hist[i] == 128) {   // the component raises an out-event and the handler of the receiving client THROWS: the state is as before')
    w('          H.reset(); g_client_handler_throws = true; bool propagated = false;')
    w('          try { ' + args_decl(oev) + f' comp_.{p.name}.out.{oev.name}({args_call(oev)}); }} catch (const std::runtime_error&) {{ propagated = true; }}')
    w('          g_client_handler_throws = false; std::string why;')
    w('          if (!acceptable(H.log, why)) { oc.ok = false; if (oc.detail.empty()) oc.detail = "out-event whose handler throws: " + why; }')
    w('          (void)propagated;   // whether the exception reaches the raiser is not demanded')
    w('          probe("after the out-event whose handler threw (op " + std::to_string(i) + ")"); continue; }')
    w('        int op = hist[i] % 64, kind = op / 16, c = (op / 4) % 4, r = op % 4; const std::string client_ = CLIENTS[c]; H.reset();')
    w('        inner = hist[i] >= 64;')
    w('        // with inner: first hit = the in-event at the component, the rest = deliveries of the inner out-event, which is')
    w('        // judged against the state BEFORE this operation (a releasing holder is still the holder while its release runs)')
    w('        auto split_inner = [&](const std::string& what) { if (!inner) return; std::vector<std::string> del(H.log.size() > 1 ? H.log.begin() + 1 : H.log.end(), H.log.end()); std::string why; if (!acceptable(del, why)) { oc.ok = false; if (oc.detail.empty()) oc.detail = "out-event raised by the component while it handles " + what + " of " + client_ + ": " + why; } if (H.log.size() > 1) H.log.resize(1); };')
    w('        if (kind == 0) { scripted = r; ' + args_decl(claim) +
      f' auto got = sh_.ProvidesMultiClient{p.cap}(client_).port.in.{claim.name}({args_call(claim)});')
    w('          split_inner("the claim");')
    w(f'          bool fine = H.log.size() == 1 && H.log[0] == "{mcport.tag(claim)}" && H.in_dispatch && got == FIELDS[r]' +
      ''.join(f' && {f[0]}.v == {1000 + IN_VALUES[i]}' for i, f in enumerate(claim.formals) if f[2] != 'in') + ';')
    w('          if (!fine) { oc.ok = false; if (oc.detail.empty()) oc.detail = "claim by " + client_ + " not forwarded through the dispatcher / reply lost: hits=" + H.joined(); }')
    w('          if (r == GRANT) { sel = c; S.insert(c); L.insert(c); } else { S.erase(c); }')
    w('        } else if (kind == 1) { ' + args_decl(release) +
      f' sh_.ProvidesMultiClient{p.cap}(client_).port.in.{release.name}({args_call(release)});')
    w('          split_inner("the release");')
    w(f'          bool fine = H.log.size() == 1 && H.log[0] == "{mcport.tag(release)}" && H.in_dispatch' +
      ''.join(f' && {f[0]}.v == {(1000 + IN_VALUES[i]) if f[2] == "out" else (1000 + IN_VALUES[i])}' for i, f in enumerate(release.formals) if f[2] != 'in') + ';')
    w('          if (!fine) { oc.ok = false; if (oc.detail.empty()) oc.detail = "release by " + client_ + " not forwarded to the configured release event: hits=" + H.joined(); }')
    w('          if (sel == c) sel = -1; S.erase(c); L.erase(c);')
    w('        }')
    for k, oth in enumerate(others):
        w(f'        else if (kind == {2 + k}) {{ ' + args_decl(oth) +
          (f' auto got = ' if oth.reply[0] != 'void' else ' ') +
          f'sh_.ProvidesMultiClient{p.cap}(client_).port.in.{oth.name}({args_call(oth)});')
        w(f'          split_inner("in-event {oth.name}");')
        w(f'          bool fine = H.log.size() == 1 && H.log[0] == "{mcport.tag(oth)}" && H.in_dispatch' +
          (f' && got == {reply_expr(oth)}' if oth.reply[0] != 'void' else '') + ';')
        w('          if (!fine) { oc.ok = false; if (oc.detail.empty()) oc.detail = "in-event ' + oth.name + ' by " + client_ + " not forwarded: hits=" + H.joined(); } }')
    w('        inner = false; probe("after op " + std::to_string(i));')
    w('      }')
    w('      std::ostringstream st; st << sel << "/"; for (int h : S) st << h; st << "/"; for (int h : L) st << h; oc.state = st.str() + "#" + last_probe;')
    w('      return oc;')
    w('    };')
    w('    auto opname = [&](int op) { if (op == 128) return std::string("out-event(handler throws)"); bool in_ = op >= 64; op %= 64; int kind = op / 16, c = (op / 4) % 4, r = op % 4; std::string s = std::string(in_ ? "+inner-out-event:" : "") + (kind == 0 ? "claim" : kind == 1 ? "release" : "other" + std::to_string(kind - 2)); s += "(" + CLIENTS[c] + ")"; if (kind == 0) s += "=" + std::string(r == GRANT ? "GRANT" : "deny" + std::to_string(r)); return s; };')
    w('    const char* depth_env = std::getenv("VF_C04_DEPTH"); int unpruned_depth = depth_env ? std::atoi(depth_env) : 3;')
    w('    const char* ncl_env = std::getenv("VF_C04_CLIENTS"); int max_clients = ncl_env ? std::atoi(ncl_env) : 2;')
    w('    const char* bfs_env = std::getenv("VF_C04_BFS_DEPTH"); int bfs_depth = bfs_env ? std::atoi(bfs_env) : 6;')
    w('    for (int ncl = 1; ncl <= max_clients; ++ncl) {')
    w('      std::vector<int> alphabet;')
    w('      for (int c = 0; c < ncl; ++c) { for (int r = 0; r < NF; ++r) alphabet.push_back(0 * 16 + c * 4 + r); alphabet.push_back(1 * 16 + c * 4);')
    w(f'        for (int k = 0; k < {len(others)}; ++k) alphabet.push_back((2 + k) * 16 + c * 4); }}')
    w('      long histories = 0, failures = 0; std::string first_fail; std::set<std::string> states;')
    w('      // (1) un-pruned sweep: every history up to unpruned_depth')
    w('      std::vector<std::vector<int>> level{{}};')
    w('      for (int d = 0; d <= unpruned_depth; ++d) { std::vector<std::vector<int>> next;')
    w('        for (auto& h : level) { Outcome oc = run(h, ncl); ++histories; states.insert(oc.state);')
    w('          if (!oc.ok) { ++failures; if (first_fail.empty()) { first_fail = "["; for (int op : h) first_fail += opname(op) + " "; first_fail += "] " + oc.detail; } }')
    w('          if (d < unpruned_depth) for (int op : alphabet) { auto n = h; n.push_back(op); next.push_back(n); } }')
    w('        level.swap(next); }')
    w('      verif::emit("C04", "histories-unpruned", "clients=" + std::to_string(ncl) + " depth<=" + std::to_string(unpruned_depth), failures == 0, "histories=" + std::to_string(histories) + " failures=" + std::to_string(failures) + " states=" + std::to_string(states.size()) + " " + first_fail);')
    w('      // (2) BFS pruned on (reference state, probe result)')
    w('      std::set<std::string> seen; std::deque<std::vector<int>> frontier; frontier.push_back({}); long explored = 0, bfail = 0; std::string bfirst; size_t maxd = 0;')
    w('      while (!frontier.empty()) { auto h = frontier.front(); frontier.pop_front(); if ((int)h.size() >= bfs_depth) continue;')
    w('        for (int op : alphabet) { auto n = h; n.push_back(op); Outcome oc = run(n, ncl); ++explored; maxd = std::max(maxd, n.size());')
    w('          if (!oc.ok) { ++bfail; if (bfirst.empty()) { bfirst = "["; for (int o : n) bfirst += opname(o) + " "; bfirst += "] " + oc.detail; } }')
    w('          if (seen.insert(oc.state).second) frontier.push_back(n); } }')
    w('      verif::emit("C04", "histories-bfs", "clients=" + std::to_string(ncl), bfail == 0, "explored=" + std::to_string(explored) + " states=" + std::to_string(seen.size()) + " maxdepth=" + std::to_string(maxd) + " failures=" + std::to_string(bfail) + " " + bfirst);')
    w('    }')
    w('    // (4) the component raises an out-event while it handles a client in-event: all histories to depth 2 over the')
    w('    //     alphabet extended with an "inner" variant of every operation')
    w('    for (int ncl = 1; ncl <= max_clients; ++ncl) {')
    w('      std::vector<int> alphabet;')
    w('      for (int c = 0; c < ncl; ++c) { for (int r = 0; r < NF; ++r) alphabet.push_back(0 * 16 + c * 4 + r); alphabet.push_back(1 * 16 + c * 4);')
    w(f'        for (int k = 0; k < {len(others)}; ++k) alphabet.push_back((2 + k) * 16 + c * 4); }}')
    w('      { size_t n0 = alphabet.size(); for (size_t k = 0; k < n0; ++k) alphabet.push_back(alphabet[k] + 64); }')
    w('      long histories = 0, failures = 0; std::string first_fail;')
    w('      std::vector<std::vector<int>> level{{}};')
    w('      for (int d = 0; d <= 2; ++d) { std::vector<std::vector<int>> next;')
    w('        for (auto& h : level) { bool any_inner = false; for (int op : h) any_inner = any_inner || op >= 64;')
    w('          if (any_inner) { Outcome oc = run(h, ncl); ++histories;')
    w('            if (!oc.ok) { ++failures; if (first_fail.empty()) { first_fail = "["; for (int op : h) first_fail += opname(op) + " "; first_fail += "] " + oc.detail; } } }')
    w('          if (d < 2) for (int op : alphabet) { auto n = h; n.push_back(op); next.push_back(n); } }')
    w('        level.swap(next); }')
    w('      verif::emit("C04", "histories-inner-out-events", "clients=" + std::to_string(ncl), failures == 0, "histories=" + std::to_string(histories) + " failures=" + std::to_string(failures) + " " + first_fail);')
    w(f'      verif::emit("C01", "route-reentrant", "{mcport.tag(outs[0])}@while-handling-a-client-in-event", failures == 0, first_fail);')
    w('    }')
    w('    // (6) FAILURE PATHS: the out-event handler of the receiving client throws: all histories to depth 3 over the')
    w('    //     alphabet extended with that operation, at least one of them in the history')
    w('    for (int ncl = 1; ncl <= max_clients; ++ncl) {')
    w('      std::vector<int> alphabet;')
    w('      for (int c = 0; c < ncl; ++c) { for (int r = 0; r < NF; ++r) alphabet.push_back(0 * 16 + c * 4 + r); alphabet.push_back(1 * 16 + c * 4);')
    w(f'        for (int k = 0; k < {len(others)}; ++k) alphabet.push_back((2 + k) * 16 + c * 4); }}')
    w('      alphabet.push_back(128);')
    w('      long histories = 0, failures = 0; std::string first_fail;')
    w('      std::vector<std::vector<int>> level{{}};')
    w('      for (int d = 0; d <= 3; ++d) { std::vector<std::vector<int>> next;')
    w('        for (auto& h : level) { bool any_throw = false; for (int op : h) any_throw = any_throw || op == 128;')
    w('          if (any_throw) { Outcome oc = run(h, ncl); ++histories;')
    w('            if (!oc.ok) { ++failures; if (first_fail.empty()) { first_fail = "["; for (int op : h) first_fail += opname(op) + " "; first_fail += "] " + oc.detail; } } }')
    w('          if (d < 3) for (int op : alphabet) { auto n = h; n.push_back(op); next.push_back(n); } }')
    w('        level.swap(next); }')
    w('      verif::emit("C04", "histories-client-handler-throws", "clients=" + std::to_string(ncl), failures == 0, "histories=" + std::to_string(histories) + " failures=" + std::to_string(failures) + " " + first_fail);')
    w(f'      verif::emit("C01", "route-after-a-handler-threw", "{mcport.tag(outs[0])}", failures == 0, first_fail);')
    w('    }')
    w('    // (7) EMBEDDING: two shells of the same type alive in one program and used from one thread')
    w('    { std::string problem;')
    w('      try {')
    w('        Fix fa; bind_all(*fa.sh, *fa.comp, *fa.pump, -1, 2); Fix fb; bind_all(*fb.sh, *fb.comp, *fb.pump, -1, 2);')
    w('        fa.sh->FinalConstruct(&parent); fb.sh->FinalConstruct(&parent);')
    grant_body = ' '.join(f'{f[0]} = {value_type(f[1])}({1000 + IN_VALUES[i]});' for i, f in enumerate(claim.formals) if f[2] != 'in')
    w(f'        fa.comp->{p.name}.in.{claim.name} = [&]{handler_sig(claim)} {{ {grant_body} return FIELDS[GRANT]; }};')
    w(f'        fb.comp->{p.name}.in.{claim.name} = [&]{handler_sig(claim)} {{ {grant_body} return FIELDS[GRANT]; }};')
    w('        { ' + args_decl(claim) + f' (void)fa.sh->ProvidesMultiClient{p.cap}(CLIENTS[0]).port.in.{claim.name}({args_call(claim)}); }}')
    w('        H.reset(); { ' + args_decl(oev0) + f' fb.comp->{p.name}.out.{oev0.name}({args_call(oev0)}); }}')
    w('        if (!H.log.empty()) problem += "client A holds the claim on shell 1 only, an out-event of shell 2 was delivered: " + H.joined() + "; ";')
    w('        H.reset(); { ' + args_decl(oev0) + f' fa.comp->{p.name}.out.{oev0.name}({args_call(oev0)}); }}')
    w(f'        if (!(H.log.size() == 1 && H.log[0] == "{mcport.tag(oev0)}@A")) problem += "out-event of shell 1 while A holds its claim: " + H.joined() + "; ";')
    w('        // nested use: while the holder on shell 1 handles an out-event, it claims on shell 2 as client AB')
    w(f'        fa.sh->ProvidesMultiClient{p.cap}(CLIENTS[0]).port.out.{oev0.name} = [&]{handler_sig(oev0)} {{ H.hit("outer"); {{ ' + args_decl(claim) +
      f' auto r_ = fb.sh->ProvidesMultiClient{p.cap}(CLIENTS[1]).port.in.{claim.name}({args_call(claim)}); if (!(r_ == FIELDS[GRANT])) H.hit("claim-on-shell-2-not-granted"); }} }};')
    w('        H.reset(); { ' + args_decl(oev0) + f' fa.comp->{p.name}.out.{oev0.name}({args_call(oev0)}); }}')
    w('        if (!(H.log.size() == 1 && H.log[0] == "outer")) problem += "nested claim on shell 2 from a handler of shell 1: " + H.joined() + "; ";')
    w('        H.reset(); { ' + args_decl(oev0) + f' fb.comp->{p.name}.out.{oev0.name}({args_call(oev0)}); }}')
    w(f'        if (!(H.log.size() == 1 && H.log[0] == "{mcport.tag(oev0)}@AB")) problem += "out-event of shell 2 after the nested claim by AB: " + H.joined() + "; ";')
    w('      } catch (const std::exception& e) { problem += std::string("exception: ") + e.what(); }')
    w('      verif::emit("C04", "two-shells-in-one-program", "claims", problem.empty(), problem);')
    w('      // ... the second shell registers the same identifiers and leaves an out-event of its first client unbound')
    w('      for (int ncl : {1, 2}) { int miss = -1; for (int k = 0; k < count_bindings(ncl); ++k) if (binding_name(k, ncl).find("@") != std::string::npos) { miss = k; break; }')
    w('        Fix fa; bind_all(*fa.sh, *fa.comp, *fa.pump, -1, ncl); Fix fb; bind_all(*fb.sh, *fb.comp, *fb.pump, miss, ncl);')
    w('        std::string wa, wb; bool tb = throws([&]{ fb.sh->FinalConstruct(&parent); }, wb); bool ta = throws([&]{ fa.sh->FinalConstruct(&parent); }, wa);')
    w('        verif::emit("C10", "two-shells-in-one-program", "clients=" + std::to_string(ncl), tb && !ta, std::string(tb ? "" : "the unbound out-event of the second shell went unnoticed; ") + (ta ? "the first, fully bound shell failed: " + wa : "")); }')
    w('    }')
    w('    // (3) every other ORDER in which the same clients can be registered: all histories to depth 2')
    w('    for (int ncl = 2; ncl <= max_clients; ++ncl) {')
    w('      std::vector<int> alphabet;')
    w('      for (int c = 0; c < ncl; ++c) { for (int r = 0; r < NF; ++r) alphabet.push_back(0 * 16 + c * 4 + r); alphabet.push_back(1 * 16 + c * 4);')
    w(f'        for (int k = 0; k < {len(others)}; ++k) alphabet.push_back((2 + k) * 16 + c * 4); }}')
    w('      std::vector<int> perm; for (int c = 0; c < ncl; ++c) perm.push_back(c);')
    w('      long histories = 0, failures = 0, orders = 0; std::string first_fail;')
    w('      while (std::next_permutation(perm.begin(), perm.end())) { ++orders;')
    w('        for (int c = 0; c < ncl; ++c) g_order[c] = perm[c];')
    w('        std::vector<std::vector<int>> level{{}};')
    w('        for (int d = 0; d <= 2; ++d) { std::vector<std::vector<int>> next;')
    w('          for (auto& h : level) { Outcome oc = run(h, ncl); ++histories;')
    w('            if (!oc.ok) { ++failures; if (first_fail.empty()) { first_fail = "registered in the order"; for (int c = 0; c < ncl; ++c) first_fail += " " + CLIENTS[perm[c]]; first_fail += ": ["; for (int op : h) first_fail += opname(op) + " "; first_fail += "] " + oc.detail; } }')
    w('            if (d < 2) for (int op : alphabet) { auto n = h; n.push_back(op); next.push_back(n); } }')
    w('          level.swap(next); } }')
    w('      g_order = {0, 1, 2, 3};')
    w('      verif::emit("C04", "histories-registration-orders", "clients=" + std::to_string(ncl), failures == 0, "orders=" + std::to_string(orders) + " histories=" + std::to_string(histories) + " failures=" + std::to_string(failures) + " " + first_fail);')
    w('    }')
    # all out-events routed identically to the holder
    w('    { Fix fx; Shell& sh_ = *fx.sh; Comp& comp_ = *fx.comp; dzn::pump& pump_ = *fx.pump; bind_all(sh_, comp_, pump_, -1, 2); sh_.FinalConstruct(&parent);')
    w(f'      comp_.{p.name}.in.{claim.name} = [&]{handler_sig(claim)} {{ return FIELDS[GRANT]; }};')
    w('      { ' + args_decl(claim) + f' (void)sh_.ProvidesMultiClient{p.cap}(CLIENTS[1]).port.in.{claim.name}({args_call(claim)}); }}')
    for oev in outs:
        w('      { H.reset(); ' + args_decl(oev) + f' comp_.{p.name}.out.{oev.name}({args_call(oev)});')
        exp = ' && '.join([f'H.args.size() == {len(oev.formals)}'] + [f'H.args[{i}] == {IN_VALUES[i]}' for i in range(len(oev.formals))])
        w(f'        bool to_holder_ = H.log.size() == 1 && H.log[0] == "{mcport.tag(oev)}@AB" && {exp};')
        w(f'        verif::emit("C04", "out-event-to-holder", "{oev.name}", to_holder_, "hits=" + H.joined());')
        w(f'        verif::emit("C01", "route", "{mcport.tag(oev)}@holder", to_holder_, "after a granted claim by AB: hits=" + H.joined()); }}')
    w('    }')
    # (5) size + identifier shapes + registration orders: many clients, ALL registered first, the returned handles are kept and
    #     only then wired and used. Families: long identifiers that share a long prefix and end in a number ("...unit10"
    #     sorts before "...unit2"); short identifiers mixing numeric strings of different lengths with alphanumeric ones that
    #     begin with a digit and with case variants. Orders: as listed, reversed, ascending, descending, zigzag, rotated;
    #     and (multi-client base point only) EVERY permutation of eight short identifiers.
    oev0 = outs[0]
    w(f'    using Handle = decltype(std::declval<Shell&>().ProvidesMultiClient{p.cap}(std::string()));')
    w('    auto many = [&](const std::vector<std::string>& ids, bool full_) -> std::string {')
    w('      const int N = (int)ids.size(); std::string problem;')
    w('      Fix fx; Shell& sh_ = *fx.sh; Comp& comp_ = *fx.comp; dzn::pump& pump_ = *fx.pump; bind_all(sh_, comp_, pump_, -1, 0);')
    w(f'      std::vector<Handle> handles; for (auto& id_ : ids) handles.push_back(sh_.ProvidesMultiClient{p.cap}(id_));')
    w('      std::vector<int> got(N, 0);')
    w('      for (int i = 0; i < N; ++i) {')
    for oev in outs:
        w(f'        handles[i].port.out.{oev.name} = [&got, i]{handler_sig(oev)} {{ ' + ('got[i]++; ' if oev.name == oev0.name else '') + '};')
    w('      }')
    w('      std::string what; bool fc_throws = throws([&]{ sh_.FinalConstruct(&parent); }, what);')
    w('      if (fc_throws) return "FinalConstruct throws although every client is wired: " + what + "; ";')
    w(f'      comp_.{p.name}.in.{claim.name} = [&]{handler_sig(claim)} {{ ' +
      ' '.join(f'{f[0]} = {value_type(f[1])}({1000 + IN_VALUES[i]});' for i, f in enumerate(claim.formals) if f[2] != 'in') +
      ' return FIELDS[GRANT]; };')
    w('      std::vector<int> who; if (full_ || N <= 20) { for (int i = 0; i < N; ++i) who.push_back(i); } else who = {0, N - 1, N / 2, 1, N - 2, 2, 10 % N};')
    w('      for (int i : who) {')
    w('        std::vector<int> before = got;')
    w('        { ' + args_decl(claim) + f' auto r_ = handles[i].port.in.{claim.name}({args_call(claim)}); if (!(r_ == FIELDS[GRANT])) problem += "claim reply lost; "; }}')
    w('        { ' + args_decl(oev0) + f' comp_.{p.name}.out.{oev0.name}({args_call(oev0)}); }}')
    w('        for (int j = 0; j < N; ++j) if (got[j] != before[j] + (j == i ? 1 : 0)) { problem += "after a granted claim by client " + ids[i] + " the out-event count of client " + ids[j] + " changed by " + std::to_string(got[j] - before[j]) + "; "; break; }')
    w('        { ' + args_decl(release) + f' handles[i].port.in.{release.name}({args_call(release)}); }}')
    w('        before = got; { ' + args_decl(oev0) + f' comp_.{p.name}.out.{oev0.name}({args_call(oev0)}); }}')
    w('        if (got != before) problem += "out-event delivered after the release of client " + ids[i] + "; ";')
    w('        if (!problem.empty()) break;')
    w('      }')
    w(f'      {{ const Shell& csh_ = sh_; auto known_ = csh_.Get{p.cap}ClientIdentifiers(); std::set<std::string> a_(known_.begin(), known_.end()), b_(ids.begin(), ids.end()); if (a_ != b_ || (int)known_.size() != N) problem += "client identifiers reported: " + std::to_string(known_.size()) + "; "; }}')
    w(f'      {{ std::string w2; if (!throws([&]{{ (void)sh_.ProvidesMultiClient{p.cap}(ids[0] + "x"); }}, w2)) problem += "late registration accepted; "; }}')
    w('      return problem; };')
    w('    auto orders_of = [](const std::vector<std::string>& ids, bool all_) { std::vector<std::vector<std::string>> o; o.push_back(ids);')
    w('      { auto r = ids; std::reverse(r.begin(), r.end()); o.push_back(r); }')
    w('      if (all_) { auto a = ids; std::sort(a.begin(), a.end()); o.push_back(a); std::reverse(a.begin(), a.end()); o.push_back(a);')
    w('        std::vector<std::string> z; for (size_t i = 0, j = ids.size(); i < j; ) { z.push_back(ids[i++]); if (i < j) z.push_back(ids[--j]); } o.push_back(z);')
    w('        auto t = ids; std::rotate(t.begin(), t.begin() + t.size() / 3, t.end()); o.push_back(t); }')
    w('      return o; };')
    w('    static const std::vector<std::string> SHORT_IDS = {"2", "9", "10", "1", "1b", "3a", "7", "8", "10a", "01", "100", "a1", "A1", "1B", "b", "0", "00", "1a", "20", "2a"};')
    w('    for (int N : {5, 8, 9, 12, 17, 33}) {')
    w('      std::vector<std::string> ids; for (int i = 0; i < N; ++i) ids.push_back("plant.hall2.line7.station12.operatorPanel.unit" + std::to_string(i));')
    w('      std::string problem; for (auto& o : orders_of(ids, false)) { problem = many(o, false); if (!problem.empty()) { problem = "registration order " + o[0] + ", " + o[1] + ", ...: " + problem; break; } }')
    w('      verif::emit("C04", "many-clients", "clients=" + std::to_string(N), problem.empty(), problem);')
    w(f'      verif::emit("C01", "route", "{mcport.tag(oev0)}@many-clients=" + std::to_string(N), problem.empty(), problem);')
    w('      verif::emit("C10", "fully-bound", "many-clients=" + std::to_string(N), problem.find("FinalConstruct throws") == std::string::npos, problem);')
    w('      // ... and with ONE out-event of ONE of the many clients left unbound final construction must fail')
    w('      for (int miss : {N - 1, 1}) {')
    w('        Fix fy; Shell& sy_ = *fy.sh; bind_all(sy_, *fy.comp, *fy.pump, -1, 0);')
    w(f'        std::vector<Handle> hs; for (auto& id_ : ids) hs.push_back(sy_.ProvidesMultiClient{p.cap}(id_));')
    w('        for (int i = 0; i < N; ++i) {')
    for oev in outs:
        cond = 'if (i != miss) ' if oev.name == oev0.name else ''
        w(f'          {cond}hs[i].port.out.{oev.name} = []{handler_sig(oev)} {{ }};')
    w('        }')
    w('        std::string w3; bool thrown = throws([&]{ sy_.FinalConstruct(&parent); }, w3);')
    w('        verif::emit("C10", "unbound-detected", "many-clients=" + std::to_string(N) + "/client " + std::to_string(miss), thrown, w3);')
    w('      }')
    w('    }')
    w('    for (int N : {8, 12, 20}) {')
    w('      std::vector<std::string> ids(SHORT_IDS.begin(), SHORT_IDS.begin() + N); std::string problem; int norders = 0;')
    w('      for (auto& o : orders_of(ids, true)) { ++norders; problem = many(o, true); if (!problem.empty()) { std::string os_; for (auto& x : o) os_ += x + " "; problem = "registration order [" + os_ + "]: " + problem; break; } }')
    w('      verif::emit("C04", "many-clients-short-identifiers", "clients=" + std::to_string(N), problem.empty(), "orders=" + std::to_string(norders) + " " + problem);')
    w('      verif::emit("C10", "fully-bound", "many-clients-short-identifiers=" + std::to_string(N), problem.find("FinalConstruct throws") == std::string::npos, problem);')
    w('    }')
    w('    { // identifiers that differ only in surrounding white space (blank, tab, line break), a blank-only identifier, an inner blank')
    w('      static const std::vector<std::string> BLANK_IDS = {" B", "B ", "B", "\\tD", "D\\n", " ", "front desk", "b", "  B", "D"};')
    w('      for (int N : {3, 6, 10}) { std::vector<std::string> ids(BLANK_IDS.begin(), BLANK_IDS.begin() + N); std::string problem; int norders = 0;')
    w('        for (auto& o : orders_of(ids, true)) { ++norders; problem = many(o, true); if (!problem.empty()) { std::string os_; for (auto& x : o) os_ += "\"" + x + "\" "; problem = "registration order [" + os_ + "]: " + problem; break; } }')
    w('        verif::emit("C04", "many-clients-blank-identifiers", "clients=" + std::to_string(N), problem.empty(), "orders=" + std::to_string(norders) + " " + problem); }')
    w('    }')
    if cfg.get('permall'):
        w('    { // EVERY registration order of six (quick: 720 shells) / eight (thorough: 40 320 shells) short identifiers')
        w('      const int NP = getenv("VF_C04_PERMALL") ? atoi(getenv("VF_C04_PERMALL")) : 6;')
        w('      std::vector<std::string> ids(SHORT_IDS.begin() + 2, SHORT_IDS.begin() + 2 + NP); std::sort(ids.begin(), ids.end()); std::string problem; long norders = 0;')
        w('      do { ++norders; problem = many(ids, true); if (!problem.empty()) { std::string os_; for (auto& x : ids) os_ += x + " "; problem = "registration order [" + os_ + "]: " + problem; break; } } while (std::next_permutation(ids.begin(), ids.end()));')
        w('      verif::emit("C04", "many-clients-all-registration-orders", "clients=" + std::to_string(NP), problem.empty(), "orders=" + std::to_string(norders) + " " + problem);')
        w('    }')
    w('  }')
    return out


# ---------------------------------------------------------------------------------------------
# case = model + cfg -> directory with all sources
# ---------------------------------------------------------------------------------------------

def make_case(pt):
    model, cfg = M.build_model(pt)
    if M.point_id(pt) == 'mc=p0:0':
        cfg['permall'] = True      # the multi-client base point also tries every registration order of eight clients
    return {'id': M.point_id(pt), 'point': pt, 'model': model, 'cfg': cfg}


def generate_sources(case):
    """Returns dict filename -> text (generated files, mock header, types, driver) or raises."""
    model, cfg = case['model'], case['cfg']
    facts = M.Facts(model)
    files = B.build(model, cfg)
    src = {name: text for name, text, _h in files}
    src[facts.base + '.hh'] = M.mock_header(model, probe_include='verif_types.hh')
    src['verif_types.hh'] = types_header(facts)
    src['driver.cc'] = gen_driver(facts, cfg)
    return src, [f[0] for f in files]


def _toolchain_id():
    if not hasattr(_toolchain_id, 'v'):
        res = subprocess.run([CXX, '--version'], capture_output=True, text=True, check=False)
        support = ''
        for root, _dirs, names in os.walk(CXX_DIR):
            for name in sorted(names):
                with open(os.path.join(root, name), encoding='utf-8') as fh:
                    support += name + fh.read()
        _toolchain_id.v = hashlib.sha256((res.stdout + support + ' '.join(BASE_FLAGS + SAN_FLAGS)).encode()).hexdigest()
    return _toolchain_id.v


def _store(cpath, result):
    """Atomic, race-tolerant cache write (several checks may compute the same key concurrently)."""
    tmp = f'{cpath}.{os.getpid()}.tmp'
    try:
        with open(tmp, 'w', encoding='utf-8') as fh:
            json.dump(result, fh)
        os.replace(tmp, cpath)
    except OSError:
        try:
            os.unlink(tmp)
        except OSError:
            pass


def reorder_pairs(stderr):
    """Member pairs of -Wreorder warnings: [initialised-later-in-list, declared-later]."""
    import re  # pylint: disable=import-outside-toplevel
    msgs = [ln for ln in stderr.splitlines() if '-Wreorder' in ln]
    out = []
    for i, line in enumerate(msgs):
        m = re.search(r"[‘'`]([^’']+)[’'] will be initialized after", line)
        if m and i + 1 < len(msgs):
            m2 = re.search(r"(?:warning|error):\s+[‘'`]([^’']+)[’']", msgs[i + 1])
            second = m2.group(1).split()[-1].split('::')[-1] if m2 else '?'
            out.append([m.group(1).split('::')[-1], second])
    return out


def run_sources(src, env_extra=None, timeout=3600, main='driver.cc', extra_flags=(), sanitize=True,
                syntax_only=False, compiler=None):
    """Compile (+ link + run) one case; cached on the hash of everything that determines the result.
    `main` may be a list of translation units that are compiled separately and linked.
    Returns {'compiled': bool, 'compile_error': str, 'exit': int, 'lines': [...], 'stderr': str}"""
    compiler = compiler or CXX
    key = hashlib.sha256(json.dumps([src, env_extra, main, list(extra_flags), sanitize, syntax_only, compiler,
                                     _toolchain_id()], sort_keys=True).encode()).hexdigest()
    os.makedirs(CACHE_DIR, exist_ok=True)
    cpath = os.path.join(CACHE_DIR, key + '.json')
    if os.path.exists(cpath) and not os.environ.get('VF_NOCACHE'):
        try:
            with open(cpath, encoding='utf-8') as fh:
                return json.load(fh)
        except (OSError, ValueError):
            pass
    tmp = tempfile.mkdtemp(prefix='vf_lab_')
    try:
        for name, text in src.items():
            with open(os.path.join(tmp, name), 'w', encoding='utf-8') as fh:
                fh.write(text)
        exe = os.path.join(tmp, 'a.out')
        mains = [main] if isinstance(main, str) else list(main)
        cmd = [compiler] + BASE_FLAGS + (SAN_FLAGS if sanitize and not syntax_only else []) + list(extra_flags) + \
              ['-I', MOCK_DIR, '-I', CXX_DIR, '-I', tmp] + [os.path.join(tmp, m) for m in mains] + \
              (['-fsyntax-only'] if syntax_only else ['-o', exe])
        comp = subprocess.run(cmd, capture_output=True, text=True, timeout=timeout, check=False)
        result = {'compiled': comp.returncode == 0, 'compile_error': '', 'exit': None, 'lines': [], 'stderr': '',
                  'warnings': [ln for ln in comp.stderr.splitlines() if 'warning:' in ln][:10],
                  'reorder': reorder_pairs(comp.stderr)}
        if comp.returncode != 0:
            errs = [ln.replace(tmp + '/', '') for ln in comp.stderr.splitlines()
                    if 'error' in ln or 'undefined reference' in ln or 'multiple definition' in ln]
            result['compile_error'] = '\n'.join(errs[:6]) or comp.stderr[-600:]
        elif not syntax_only:
            env = dict(os.environ)
            env.update(RUN_ENV)
            env.update(env_extra or {})
            from .core import run_watched  # pylint: disable=import-outside-toplevel

            class _Run:  # pylint: disable=too-few-public-methods
                pass
            run = _Run()
            # no wall-clock verdict: the single-threaded driver is limited in CPU time (a driver that loops forever is
            # killed by SIGXCPU and reported as aborted); a stalled one (no CPU at all) likewise
            code, run.stdout, run.stderr = run_watched(['/bin/sh', '-c', 'ulimit -t 900; exec "$0"', exe], env=env,
                                                       stall_seconds=180)
            run.returncode = -99 if code == 'stalled' else code
            result['exit'] = run.returncode
            err = run.stderr.replace(tmp + '/', '')
            result['stderr'] = err if len(err) < 3000 else err[:1500] + '\n...\n' + err[-1200:]
            for line in run.stdout.splitlines():
                if line.startswith('{'):
                    try:
                        result['lines'].append(json.loads(line))
                    except ValueError:
                        result['lines'].append({'prop': 'LAB', 'group': 'unparsable-output', 'subject': line[:80],
                                                'ok': False, 'detail': ''})
        _store(cpath, result)
        return result
    except subprocess.TimeoutExpired as exc:
        from .core import HarnessError  # pylint: disable=import-outside-toplevel
        raise HarnessError(f'the compiler did not finish within {timeout}s (loaded machine?) - no verdict') from exc
    finally:
        shutil.rmtree(tmp, ignore_errors=True)


def run_case(case, env_extra=None):
    """Generate + compile + run the standard driver of one case."""
    try:
        src, _names = generate_sources(case)
    except Exception as exc:  # pylint: disable=broad-except
        return {'compiled': False, 'compile_error': '', 'generation_error': f'{type(exc).__name__}: {exc}',
                'exit': None, 'lines': [], 'stderr': ''}
    release = case.get('point', {}).get('cxxflags', 'debug') == 'release'
    return run_sources(src, env_extra, extra_flags=('-O2', '-DNDEBUG') if release else ())


def check_toolchain():
    if shutil.which(CXX) is None:
        raise HarnessError(f'{CXX} not found')
