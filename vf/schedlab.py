"""E3 harness generation for C11: H1 (MutexWrapped) and H2 (multi-client shell + arbiter component +
dispatcher + clients + environment) compiled from the *generated* files of a multi-client model."""
import json
import os

from . import lab
from . import modelgen as M
from . import build as B

SCHED_MOCK = os.path.join(lab.CXX_DIR, 'mock_sched')
THR_MOCK = os.path.join(lab.CXX_DIR, 'mock_thr')

MAIN_COMMON = r'''
static std::vector<int> parse_list(const char* s) { std::vector<int> v; if (!s || !*s) return v; std::string cur; for (const char* p = s;; ++p) { if (*p == ',' || !*p) { if (!cur.empty()) v.push_back(std::atoi(cur.c_str())); cur.clear(); if (!*p) break; } else cur += *p; } return v; }
'''


def h1_source(sns):
    """MutexWrapped<int>: NT threads; thread i releases by reset() if bit i of MODE is set, else by scope exit."""
    return r'''
#include "%(file)s"
#include "sched.hh"
#include <cstring>
''' % {'file': sns['mutex_file']} + MAIN_COMMON + r'''
struct Fixture { %(ns)s::MutexWrapped<int> mw; std::atomic<int> busy{0}; std::atomic<int> done_count{0}; std::atomic<int> bad{0}; int nt; int mode;
  Fixture(int n, int m) : nt(n), mode(m) { *mw() = 0; } };
static void body(Fixture* fx, int i) {
  {
    auto p = fx->mw();
    if (fx->busy.fetch_add(1) != 0) fx->bad |= 1;        // another thread is inside
    int v = *p;
    sched::point("inside");
    *p = v + 1;
    fx->busy.fetch_sub(1);
    if (fx->mode & (1 << i)) {
      p.reset();                                           // explicit release, pointer object still alive
      fx->done_count++;
      if (i == 0 && fx->nt > 1) sched::wait_until([fx] { return fx->done_count.load() >= fx->nt; }, "wait-others");   // others must get in while we still hold the (empty) pointer
    } else {
      fx->done_count++;
    }
  }
}
int main(int argc, char** argv) {
  int nt = argc > 1 ? std::atoi(argv[1]) : 2, mode = argc > 2 ? std::atoi(argv[2]) : 0, bound = argc > 3 ? std::atoi(argv[3]) : -1;
#ifdef VF_FREE_RUN
  int iters = argc > 4 ? std::atoi(argv[4]) : 200; long bad = 0;
  for (int it = 0; it < iters; ++it) { Fixture fx(nt, mode & ~1); std::vector<std::thread> ts; for (int i = 0; i < nt; ++i) ts.emplace_back(body, &fx, i); for (auto& t : ts) t.join(); if (*fx.mw() != nt || fx.bad) ++bad; }
  std::printf("{\"harness\":\"H1-free\",\"iterations\":%%d,\"bad\":%%ld}\n", iters, bad); return bad ? 1 : 0;
#else
  sched::Result res; long cap = argc > 5 ? std::atol(argv[5]) : -1;
  sched::explore(bound, parse_list(argc > 4 ? argv[4] : ""), [&](sched::World& w) {
    auto* fx = new Fixture(nt, mode); sched::Execution ex;
    sched::run(w, [&] { for (int i = 0; i < nt; ++i) sched::spawn("t" + std::to_string(i), [fx, i] { body(fx, i); }); });
    bool clean = !w.deadlock && !w.horizon && !w.diverged;
    int final_value = clean ? *fx->mw() : -1;
    ex.outcome = "value=" + std::to_string(final_value) + " bad=" + std::to_string(fx->bad.load());
    if (clean && final_value != nt) ex.violation = "lost update: final value " + std::to_string(final_value) + " != " + std::to_string(nt);
    if (fx->bad) ex.violation += " two threads inside the protected section";
    if (clean) delete fx;
    return ex; }, res, cap, 0);
  sched::print_result("H1", bound, res, true);
  return res.violations ? 1 : 0;
#endif
}
''' % {'ns': sns['ns'].lstrip(':')}


def h2_source(facts, cfg):
    """Multi-client shell under the scheduler. argv: nclients cycles nevents use(0/1) bound [prefix]."""
    mc = cfg['mc']
    p = facts.port(mc['port'])
    claim = [e for e in p.events if e.name == mc['claim']][0]
    release = [e for e in p.events if e.name == mc['release']][0]
    others_ = [e for e in p.ins() if e.name not in (mc['claim'], mc['release']) and e.reply[0] == 'void']
    other = others_[0] if others_ else None        # (a multi-client interface may have no other in-event at all)
    # around the import shell the monitored out-event is the LAST one of the interface (the parameterless one of the
    # usual multi-client interface), around the create shell the first one (it carries an argument)
    out_ev = p.outs()[-1] if cfg.get('fac') == 'import' else p.outs()[0]
    sns = lab.support_ns(cfg)
    shell_t = '::' + '::'.join(list(facts.scope) + [facts.base + cfg.get('suffix', 'Shell')])
    comp_t = '::' + '::'.join(facts.enc.fqn)
    enum_t = claim.cpp_reply
    grant = f'{enum_t}::{mc["grant"]}'
    deny = f'{enum_t}::{[f for f in mc["fields"] if f != mc["grant"]][0]}'

    def decl(ev):
        return ' '.join(f'{lab.value_type(f[1])} {f[0]}({i + 1});' for i, f in enumerate(ev.formals))

    def call(ev):
        return ', '.join(f[0] for f in ev.formals)

    def sig(ev):
        return lab.handler_sig(ev)

    others_bind = []
    for pc in facts.provides + facts.requires:
        for ev in pc.events:
            if pc.name == p.name:
                continue
            side_user = (pc.direction == 'provides' and ev.direction == 'out') or \
                        (pc.direction == 'requires' and ev.direction == 'in')
            target = (f'sh->{"Provides" if pc.direction == "provides" else "Requires"}{pc.cap}().port' if side_user
                      else f'comp->{pc.name}') + f'.{ev.direction}.{ev.name}'
            ret = f' return {lab.reply_expr(ev)};' if ev.reply[0] != 'void' else ''
            others_bind.append(f'    {target} = []{sig(ev)} {{{ret} }};')
    return r'''
#include "%(shell_cc)s"
#include "sched.hh"
#include <cstring>
''' % {'shell_cc': facts.base + cfg.get('suffix', 'Shell') + '.cc'} + MAIN_COMMON + r'''
using Shell = %(shell_t)s; using Comp = %(comp_t)s;
static const char* CL[] = {%(client_ids)s};
enum St { IDLE = 0, CLAIMING, HOLDING, RELEASING };
struct Fixture {
  %(user_facilities)s
  dzn::locator loc; %(sns)s::ILog log; std::unique_ptr<Shell> sh; Comp* comp = nullptr; dzn::pump* pump = nullptr;
  int ncl; std::atomic<int> st[3]; std::atomic<long> ep[3]; std::atomic<int> got[3]; std::atomic<int> live{0};
  bool claimed = false;                                                   // dispatcher thread only
  std::atomic<int> stale_in_flight{0};
  std::atomic<long> handled{0};
  std::vector<int> delivered; int late_delivery = -1;                   // dispatcher thread only
  std::string violation; std::string client_violation[3]; long raised = 0, demanded = 0;
  explicit Fixture(int n) : ncl(n) {
    for (int i = 0; i < 3; ++i) { st[i] = IDLE; ep[i] = 0; got[i] = 0; }
    verif::registry().reset();
    %(publish_facilities)s
    %(construct)s comp = static_cast<Comp*>(verif::registry().component);
    %(find_pump)s
    // a legal arbiter: grants iff unclaimed
    comp->%(port)s.in.%(claim)s = [this]%(claim_sig)s { ++handled; %(claim_outs)s if (!claimed) { claimed = true; return %(grant)s; } return %(deny)s; };
    // (a release announced as "stale" by the harness - sent by a client that does not hold the claim - leaves the arbiter alone)
    comp->%(port)s.in.%(release)s = [this]%(release_sig)s { ++handled; %(release_outs)s if (stale_in_flight > 0) { --stale_in_flight; return; } claimed = false; };
%(other_in_binds)s
    for (int c = 0; c < ncl; ++c) {
      auto port = sh->ProvidesMultiClient%(cap)s(CL[c]);
%(client_out_binds)s
    }
%(others_bind)s
    sh->FinalConstruct();
  }
  // raise one out-event on the dispatcher thread and judge the delivery (monitor)
  void raise() {
    int holder = -1; long hep = 0; for (int c = 0; c < ncl; ++c) if (st[c] == HOLDING) { holder = c; hep = ep[c]; }
    std::set<int> busy0; for (int c = 0; c < ncl; ++c) if (st[c] != IDLE) busy0.insert(c);
    delivered.clear(); late_delivery = -1; ++raised;
    { %(out_decl)s comp->%(port)s.out.%(out)s(%(out_call)s); }
    if (delivered.size() > 1) violation += "out-event delivered to more than one client; ";
    // at the moment of delivery the receiver must still be inside its claim..release bracket: a client whose
    // release call has already RETURNED no longer holds the claim (C04 under concurrency)
    if (late_delivery >= 0) violation += std::string("out-event delivered to client ") + CL[late_delivery] + " after its release call had returned; ";
    if (holder >= 0 && st[holder] == HOLDING && ep[holder] == hep) {     // held the claim during the whole raise
      ++demanded;
      if (delivered.size() != 1 || delivered[0] != holder) violation += std::string("client ") + CL[holder] + " holds the claim (granted, not released) but the out-event went to " + (delivered.empty() ? std::string("nobody") : std::string(CL[delivered[0]])) + "; ";
    }
    for (int d : delivered) { bool busy1 = st[d] != IDLE; if (!busy0.count(d) && !busy1) violation += std::string("out-event delivered to idle client ") + CL[d] + "; "; }
  }
};
static void client(Fixture* fx, int c, int cycles, int use) {
  auto port = fx->sh->ProvidesMultiClient%(cap)s(CL[c]);
  for (int k = 0; k < cycles; ++k) {
    fx->st[c] = CLAIMING; fx->ep[c]++;
    long h0 = fx->handled;
    %(claim_decl)s
    auto r = port.port.in.%(claim)s(%(claim_call)s);
    if (fx->handled < h0 + 1) fx->client_violation[c] += "claim returned before the dispatcher ran it; ";
    if (r == %(grant)s) {
      fx->st[c] = HOLDING; fx->ep[c]++;
      %(use_other)s
      if (use & 2) { std::atomic<bool> seen{false}; int before = fx->got[c]; (*fx->pump)([fx, &seen] { fx->raise(); seen = true; }); sched::wait_until([&seen] { return seen.load(); }, "await-out-event");
        if (fx->got[c] < before + 1) fx->client_violation[c] += std::string("client ") + CL[c] + " holds the claim and asked for an out-event but did not receive it; "; }
      sched::point("holding");
      fx->st[c] = RELEASING; fx->ep[c]++;
      { %(release_decl)s port.port.in.%(release)s(%(release_call)s); }
      fx->st[c] = IDLE; fx->ep[c]++;
    } else {
      // "whatever other clients do in between": with use & 4 a client whose claim was denied sends a (stale) release
      if (use & 4) { fx->stale_in_flight++; %(release_decl)s port.port.in.%(release)s(%(release_call)s); }
      fx->st[c] = IDLE; fx->ep[c]++; }
  }
#ifndef VF_FREE_RUN
  if (--fx->live == 0) { (*fx->pump)([fx] { fx->pump->stop = true; }); }
#endif
}
static void environment(Fixture* fx, int nevents) {
  for (int j = 0; j < nevents; ++j) (*fx->pump)([fx] { fx->raise(); });
#ifndef VF_FREE_RUN
  if (--fx->live == 0) { (*fx->pump)([fx] { fx->pump->stop = true; }); }
#endif
}
int main(int argc, char** argv) {
  int ncl = argc > 1 ? std::atoi(argv[1]) : 2, cycles = argc > 2 ? std::atoi(argv[2]) : 1, nev = argc > 3 ? std::atoi(argv[3]) : 1;
  int use = argc > 4 ? std::atoi(argv[4]) : 0, bound = argc > 5 ? std::atoi(argv[5]) : 1;
#ifdef VF_FREE_RUN
  int iters = argc > 6 ? std::atoi(argv[6]) : 100; long bad = 0, demanded = 0;
  for (int it = 0; it < iters; ++it) {
    Fixture fx(ncl); fx.live = ncl + 1; std::vector<std::thread> ts;
    for (int c = 0; c < ncl; ++c) ts.emplace_back(client, &fx, c, cycles, use);
    ts.emplace_back(environment, &fx, nev * 4);
    for (auto& t : ts) t.join();
    dzn::shell(*fx.pump, [] {});   // barrier: everything posted so far has been executed
    fx.sh.reset();
    demanded += fx.demanded; if (!fx.violation.empty()) { if (!bad) std::fprintf(stderr, "free-run violation: %%s\n", fx.violation.c_str()); ++bad; }
  }
  std::printf("{\"harness\":\"H2-free\",\"iterations\":%%d,\"bad\":%%ld,\"demanded\":%%ld}\n", iters, bad, demanded); return bad ? 1 : 0;
#else
  long cap = argc > 7 ? std::atol(argv[7]) : -1; size_t split = argc > 8 ? (size_t)std::atoi(argv[8]) : 0;
  sched::Result res; long demanded = 0, raised = 0;
  sched::explore(bound, parse_list(argc > 6 ? argv[6] : ""), [&](sched::World& w) {
    auto* fx = new Fixture(ncl); fx->live = ncl + (nev > 0 ? 1 : 0); sched::Execution ex;
    sched::run(w, [&] {
      sched::spawn("dispatcher", [fx] { fx->pump->worker(); });
      for (int c = 0; c < ncl; ++c) sched::spawn(std::string("client") + CL[c], [fx, c, cycles, use] { client(fx, c, cycles, use); });
      if (nev > 0) sched::spawn("environment", [fx, nev] { environment(fx, nev); });
    });
    std::string v = fx->violation; for (int c = 0; c < ncl; ++c) v += fx->client_violation[c];
    ex.violation = v; demanded += fx->demanded; raised += fx->raised;
    ex.outcome = (v.empty() ? std::string("ok") : std::string("VIOLATION")); for (int c = 0; c < ncl; ++c) ex.outcome += std::string(" ") + CL[c] + "=" + std::to_string(fx->got[c].load());
    bool clean = !w.deadlock && !w.horizon && !w.diverged;
    if (clean) delete fx;
    return ex; }, res, cap, split);
  sched::print_result("H2", bound, res, true);
  std::printf("{\"harness\":\"H2-monitor\",\"out_events_raised\":%%ld,\"deliveries_demanded\":%%ld}\n", raised, demanded);
  return res.violations ? 1 : 0;
#endif
}
''' % {
        'shell_t': shell_t, 'comp_t': comp_t, 'sns': sns, 'port': p.name, 'cap': p.cap,
        # facilities origin: with 'import' the user owns dispatcher and runtime and publishes them in the locator
        # client identifiers: short ones around the create shell; around the import shell long ones that share their
        # first 45 characters
        'client_ids': ('"plant.hall2.line7.station12.operatorPanel.left", "plant.hall2.line7.station12.operatorPanel.right", '
                       '"plant.hall2.line7.station12.operatorPanel.middle"') if cfg.get('fac') == 'import' else
                      # bare-interface variant: identifiers that differ only in surrounding white space
                      ('" B", "B ", "B"' if cfg.get('blank_ids') else '"A", "B", "C"'),
        # REPRESENTATION: around the import shell the logger is a temporary (the shell must keep its own copy)
        'construct': ('sh.reset(new Shell(loc, %s::ILog{}, std::string("in") + "st"));' % sns) if cfg.get('fac') == 'import'
        else 'sh.reset(new Shell(loc, log, "inst"));',
        'user_facilities': 'dzn::pump user_pump; dzn::runtime user_rt;' if cfg.get('fac') == 'import' else '',
        'publish_facilities': 'loc.set(user_pump).set(user_rt);' if cfg.get('fac') == 'import' else '',
        'find_pump': 'pump = &user_pump;' if cfg.get('fac') == 'import' else 'pump = &sh->Locator().get<dzn::pump>();',
        'claim': claim.name, 'release': release.name, 'out': out_ev.name,
        'use_other': (f'if (use & 1) {{ {decl(other)} port.port.in.{other.name}({call(other)}); }}' if other else '(void)use;'),
        'claim_sig': sig(claim), 'release_sig': sig(release),
        'claim_outs': ' '.join(f'{f[0]} = {f[1]}(7);' for f in claim.formals if f[2] != 'in'),
        'release_outs': ' '.join(f'{f[0]} = {f[1]}(8);' for f in release.formals if f[2] != 'in'),
        'grant': grant, 'deny': deny,
        'other_in_binds': '\n'.join(
            f'    comp->{p.name}.in.{e.name} = [this]{sig(e)} {{ ++handled;' +
            (f' return {lab.reply_expr(e)};' if e.reply[0] != 'void' else '') + ' };'
            for e in p.ins() if e.name not in (mc['claim'], mc['release'])),
        'client_out_binds': '\n'.join(
            f'      port.port.out.{e.name} = [this, c]{sig(e)} {{ ' +
            ('delivered.push_back(c); got[c]++; if (st[c] == IDLE) late_delivery = c; ' if e.name == out_ev.name else '') + '};'
            for e in p.outs()),
        'others_bind': '\n'.join(others_bind),
        'out_decl': decl(out_ev), 'out_call': call(out_ev),
        'claim_decl': decl(claim), 'claim_call': call(claim),
        'release_decl': decl(release), 'release_call': call(release),
    }


def mc_case(delta=None):
    pt = dict(M.BASE_POINT)
    pt.update({'mc': 'p0:0'})
    pt.update(delta or {})
    return lab.make_case(pt)


def sources(case):
    facts = M.Facts(case['model'])
    cfg = case['cfg']
    if case.get('point', {}).get('mcmenu') == 'bare':
        cfg = dict(cfg, blank_ids=True)     # the harness around the bare interface registers " B", "B " and "B"
    files = B.build(case['model'], cfg)
    src = {name: text for name, text, _h in files}
    src[facts.base + '.hh'] = M.mock_header(case['model'], probe_include='verif_types.hh')
    src['verif_types.hh'] = lab.types_header(facts)
    sns = lab.support_ns(cfg)
    prefix = ('_'.join(cfg['prefix'].split('.')) + '_') if cfg.get('prefix') else ''
    src['h1.cc'] = h1_source({'ns': sns, 'mutex_file': f'{prefix}Dzn_MutexWrapped.hh'})
    src['h2.cc'] = h2_source(facts, cfg)
    with open(os.path.join(lab.CXX_DIR, 'sched_interpose.cc'), encoding='utf-8') as fh:
        src['sched_interpose.cc'] = fh.read()
    src['sched_free.cc'] = '#include "sched.hh"\nnamespace sched { World* W = nullptr; thread_local T* self = nullptr; }\n'
    return src


class Binary:
    """Compile a harness once (temp dir), run it many times, remove everything on exit."""

    def __init__(self, src, mains, mode='sched', opt='-O1'):
        import hashlib  # pylint: disable=import-outside-toplevel
        self.src, self.mains, self.mode, self.opt = src, mains, mode, opt
        self.tmp = None
        self.exe = None
        self.error = ''
        self.key = hashlib.sha256(json.dumps([src, mains, mode, opt, lab._toolchain_id()],  # pylint: disable=protected-access
                                             sort_keys=True).encode()).hexdigest()

    def __enter__(self):
        import subprocess  # pylint: disable=import-outside-toplevel
        import tempfile  # pylint: disable=import-outside-toplevel
        self.tmp = tempfile.mkdtemp(prefix='vf_sched_')
        for name, text in self.src.items():
            with open(os.path.join(self.tmp, name), 'w', encoding='utf-8') as fh:
                fh.write(text)
        self.exe = os.path.join(self.tmp, 'a.out')
        if self.mode == 'sched':
            flags = ['-std=c++17'] + self.opt.split() + ['-g0', '-I', SCHED_MOCK, '-I', lab.MOCK_DIR, '-I', lab.CXX_DIR, '-I', self.tmp]
            tail = ['-ldl', '-pthread']
        else:   # free-running ThreadSanitizer build
            flags = ['-std=c++17', '-O1', '-g', '-fsanitize=thread', '-DVF_FREE_RUN', '-I', THR_MOCK, '-I', lab.MOCK_DIR,
                     '-I', lab.CXX_DIR, '-I', self.tmp]
            tail = ['-pthread']
        cmd = [lab.CXX] + flags + [os.path.join(self.tmp, m) for m in self.mains] + ['-o', self.exe] + tail
        res = subprocess.run(cmd, capture_output=True, text=True, timeout=3600, check=False)
        if res.returncode != 0:
            errs = [ln.replace(self.tmp + '/', '') for ln in res.stderr.splitlines() if 'error' in ln or 'undefined' in ln]
            self.error = '\n'.join(errs[:6]) or res.stderr[-600:]
            self.exe = None
        return self

    def run(self, args, timeout=3000, env=None):
        """Returns (exit code, [json lines], stderr tail). Cached per (binary key, args)."""
        import subprocess  # pylint: disable=import-outside-toplevel
        cpath = os.path.join(lab.CACHE_DIR, f'{self.key}_{"_".join(map(str, args))}.json'.replace('/', '-'))
        os.makedirs(lab.CACHE_DIR, exist_ok=True)
        if os.path.exists(cpath) and not os.environ.get('VF_NOCACHE') and self.mode == 'sched':
            with open(cpath, encoding='utf-8') as fh:
                return tuple(json.load(fh))
        e = dict(os.environ)
        e.update(env or {})
        from .core import run_watched  # pylint: disable=import-outside-toplevel
        code, stdout, stderr = run_watched([self.exe] + [str(a) for a in args], env=e, stall_seconds=120,
                                           wall_cap=max(timeout, 7200))
        if code == 'stalled':
            return (-99, [], 'stalled: no CPU time consumed for 120 s (all threads blocked)')

        class _Res:  # pylint: disable=too-few-public-methods
            pass
        res = _Res()
        res.returncode, res.stdout, res.stderr = code, stdout, stderr
        lines = []
        for ln in res.stdout.splitlines():
            if ln.startswith('{'):
                try:
                    lines.append(json.loads(ln))
                except ValueError:
                    pass
        out = (res.returncode, lines, res.stderr[-3000:])
        if self.mode == 'sched' and res.returncode in (0, 1):
            lab._store(cpath, list(out))  # pylint: disable=protected-access
        return out

    def __exit__(self, *exc):
        import shutil  # pylint: disable=import-outside-toplevel
        if self.tmp:
            shutil.rmtree(self.tmp, ignore_errors=True)
        return False
