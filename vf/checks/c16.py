"""C16 - parses are isolated and repeatable.

Space : K parser slots (2 quick / 3 thorough), 4 documents (D0; D1 re-using D0's names with other
        payload; D2 failing half-way inside a nested namespace; D3 declaring nothing), operations new(slot,doc) / new(slot)+load_file(doc) /
        load_file(doc) on the existing instance / process(slot); ALL histories to depth 4 (quick) - un-pruned; thorough: un-pruned to depth 4
        with 3 slots and pruned BFS (state = per slot: document + normal form of the accumulated
        contents + module/class globals) to depth 7.
Oracle: every successful process() result, normalised by docgen.unparse, equals docgen.expected
        of that document; D2 fails with the same DznJsonError every time; results returned earlier
        are unchanged after every later operation.
"""
import collections
import contextlib
import io
import itertools
import json
import os
import shutil
import tempfile

from ..core import Partial, pmap, jhash
from .. import docgen as D

PID = 'C16'

DOCS = [
    # D0 and D1 declare the SAME fully qualified names for every kind of declaration, with different payloads
    [['ns', ['A'], [['enum', 'E', ['X']], ['extern', 'T', 'int'],
                    ['interface', 'I', [['enum', 'R', ['Ok']], ['subint', 'S', 0, 1]],
                     [['e', 'in', ['R'], []]]],
                    ['foreign', 'F', [['fp', ['I'], 'provides', False]]]]],
     ['subint', 'S', 0, 9],
     # a global TYPE named Zed and a global NAMESPACE named Yps here; the other way round in D1
     ['enum', 'Zed', ['Z1']], ['ns', ['Yps'], [['enum', 'InYps', ['Y']]]],
     ['ns', ['A', 'B'], [['enum', 'Deep', ['P']]]],           # namespace A.B written as ONE multi-identifier namespace
     ['component', 'C', [['p', ['A', 'I'], 'provides', False]]],
     ['system', 'Sys', [['sp', ['A', 'I'], 'provides', False]], [['c', ['C']]], [[['sp', None], ['p', 'c']]]],
     ['filename', 'd0.dzn']],
    [['ns', ['A'], [['enum', 'E', ['Y', 'Z']], ['extern', 'T', 'long'],
                    ['interface', 'I', [['enum', 'R', ['No', 'Ok']], ['enum', 'R2', ['Q']]],
                     [['e', 'in', ['void'], [['a', ['T'], 'in']]], ['f', 'out', ['void'], []]]],
                    ['foreign', 'F', []],
                    ['interface', 'Plain', [], [['g', 'in', ['void'], []]]],       # an interface without types of its own
                    ['ns', ['B'], [['enum', 'Deep', ['Q', 'R']]]]]],      # ... and as a namespace nested in A
     ['component', 'C', []], ['import', 'x.dzn'], ['subint', 'S', 2, 3],
     ['ns', ['Zed'], [['enum', 'InZed', ['Z']]]], ['extern', 'Yps', 'int'],
     ['system', 'Sys', [], [['c', ['C']], ['f', ['A', 'F']]], []]],
    # fails half-way, INSIDE a (nested) namespace, after some declarations were already parsed
    [['enum', 'Early', ['P']], ['ns', ['A'], [['extern', 'T', 'long'], ['ns', ['Deep'], [
        ['junk', {'<class>': 'component', 'name': D.sn(['Broken'])}]]]]], ['enum', 'Late', ['Q']]],
    # a well-formed document that declares nothing at all
    [],
]
NSWEEP = 4        # documents 0..3 take part in the history sweeps
# SIZE: document 4 declares 200 things (240 distinct names) with distinct names and type spellings between two out-events; it takes part in
# its own family of histories only
_BIG = [['interface', 'First', [], [['o', 'out', ['void'], []]]]]
for _i in range(40):
    # 40 x 6 = 240 distinct names and type spellings with no 'void' among them ...
    _BIG.append(['ns', [f'Ns{_i % 40}'], [
        ['interface', f'I{_i}', [['enum', f'R{_i}', ['Ok']]], [['e', 'in', [f'R{_i}'], [['a', [f'X{_i}'], 'in']]]]],
        ['extern', f'X{_i}', f'type{_i}'], ['enum', f'E{_i}', [f'F{_i}']],
        ['component', f'C{_i}', [['p', [f'I{_i}'], 'provides', False]]]]])
    _BIG.append(['subint', f'Big{_i}', _i, _i + 1])
# ... and only then the next out-event
_BIG.append(['interface', 'Last', [], [['o', 'out', ['void'], [['a', ['X1'], 'in']]], ['i', 'in', ['void'], []]]])
DOCS.append(_BIG)
# FAILURE PATHS: documents 5..7 fail in other ways and places (own family of histories only): with the identifier-
# validation error three namespaces deep after a sibling namespace was completed; with the parser's error on the first
# element of a multi-identifier namespace; at top level AFTER a namespace was parsed completely
DOCS.append([['enum', 'Early', ['P']], ['ns', ['Other'], [['enum', 'Done', ['D']]]],
             ['ns', ['A'], [['ns', ['Deep', 'Er'], [['ns', ['Deepest'], [['extern', 'Fine', 'int'],
                                                                          ['junk', {'<class>': 'enum', 'name': D.sn(['Not-An-Identifier']),
                                                                                    'fields': []}]]]]]]],
             ['enum', 'Late', ['Q']]])
DOCS.append([['ns', ['X', 'Y'], [['junk', {'<class>': 'interface', 'name': D.sn(['NoEvents'])}], ['enum', 'Never', ['N']]]]])
DOCS.append([['ns', ['A'], [['enum', 'E', ['X']]]], ['junk', {'<class>': 'extern', 'name': D.sn(['NoValue'])}]])
# EDGE VALUES: a range bound of 2**64 / below -2**63 (the JSON decoder hands these over as floats: refused when parsed alone)
DOCS.append([['enum', 'Before', ['B']], ['subint', 'Huge', 0, 2 ** 64], ['enum', 'After', ['A']]])
DOCS.append([['ns', ['A'], [['subint', 'Low', -(2 ** 63) - 1, 0]]]])
EXPECTED = [D.expected(DOCS[0]), D.expected(DOCS[1]), None, D.expected(DOCS[3]), D.expected(DOCS[4]), None, None, None, None, None]
# files that are no (UTF-8) JSON at all: loading them fails in whatever way - and must not influence any later parse
UNDECODABLE = {'bom': lambda raw: b'\xef\xbb\xbf' + raw, 'utf16': lambda raw: raw.decode('utf-8').encode('utf-16'),
               'truncated': lambda raw: raw[:len(raw) // 2], 'empty': lambda raw: b'', 'nan': lambda raw: b'{"x": NaN}',
               'lone-surrogate': lambda raw: b'{"x": "\\ud800"}', 'deep': lambda raw: b'[' * 2000 + b']' * 2000}

_TMP = {}
_ALONE = {}


def alone(doc):
    """The result of parsing the document alone with a fresh parser (computed before any history of this process);
    compared with == and repr(), i.e. in EVERY attribute, also those the normal form of docgen does not print."""
    if not _ALONE:
        from dznpy.json_ast import DznJsonAst  # pylint: disable=import-outside-toplevel
        for k, d in enumerate(DOCS):
            if EXPECTED[k] is not None:
                try:
                    with contextlib.redirect_stdout(io.StringIO()):
                        _ALONE[k] = DznJsonAst(json.dumps(D.to_json(d))).process()
                except Exception:  # pylint: disable=broad-except
                    _ALONE[k] = None        # reported by the history that parses this document ('valid-document-failed')
    return _ALONE.get(doc)



def doc_file(i, pretty=False):
    """REPRESENTATION: every document exists as a compact one-line file and as an indented file with CRLF line ends,
    reversed key order, extra keys and trailing blank lines; the pretty form is handed over as a pathlib.Path."""
    if 'dir' not in _TMP or not os.path.isdir(_TMP['dir']):
        _TMP['dir'] = tempfile.mkdtemp(prefix='vf_c16_')
        for k, doc in enumerate(DOCS):
            with open(os.path.join(_TMP['dir'], f'd{k}.json'), 'w', encoding='utf-8') as fh:
                json.dump(D.to_json(doc), fh)
            with open(os.path.join(_TMP['dir'], f'd{k}_pretty.json'), 'w', encoding='utf-8', newline='') as fh:
                fh.write(json.dumps(D.to_json(doc, None, 'reversed+extra'), indent=2).replace('\n', '\r\n') + '\r\n\r\n')
    if pretty:
        import pathlib  # pylint: disable=import-outside-toplevel
        return pathlib.Path(_TMP['dir']) / f'd{i}_pretty.json'
    return os.path.join(_TMP['dir'], f'd{i}.json')


def cleanup():
    if 'dir' in _TMP:
        shutil.rmtree(_TMP['dir'], ignore_errors=True)
        _TMP.clear()


def ops_alphabet(nslots):
    ops = []
    for slot in range(nslots):
        for doc in range(NSWEEP):
            ops.append(['new', slot, doc])       # fresh instance constructed with the contents
            ops.append(['reload', slot, doc])    # load_file on the EXISTING instance of the slot (fresh one if none)
        for doc in (0, 1, 3):
            # fresh instance without contents + load_file of ONE shared path whose content is rewritten each time
            ops.append(['load', slot, doc])
        ops.append(['process', slot])
    return ops


def globals_digest():
    from dznpy import json_ast  # pylint: disable=import-outside-toplevel
    items = []
    for name, val in sorted(vars(json_ast.DznJsonAst).items()):
        if not callable(val) and not isinstance(val, property) and not name.startswith('__'):
            items.append((name, repr(val)))
    for name, val in sorted(vars(json_ast).items()):
        if isinstance(val, (list, dict, set)) and not name.startswith('__'):
            items.append((name, repr(val)))
    from dznpy import scoping, ast  # pylint: disable=import-outside-toplevel
    import dataclasses  # pylint: disable=import-outside-toplevel
    for mod in (scoping, ast):
        for name, val in sorted(vars(mod).items()):
            if not name.startswith('__') and (isinstance(val, (list, dict, set)) or
                                               (dataclasses.is_dataclass(val) and not isinstance(val, type))):
                items.append((f'{mod.__name__}.{name}', repr(val)))
    return items


def run_history(ops):
    """Replay ops on fresh objects. Returns (violations, canonical_state)."""
    from dznpy.json_ast import DznJsonAst, DznJsonError  # pylint: disable=import-outside-toplevel
    from dznpy.scoping import NamespaceIdsTypeError  # pylint: disable=import-outside-toplevel
    out = []
    kept = []
    resdoc = {}
    unequal = set()
    slots = {}
    slotdoc = {}
    returned = []   # (op index, slot, object, snapshot normal form)
    scratch = []
    errors = collections.defaultdict(set)
    sink = io.StringIO()
    alone(0)
    with contextlib.redirect_stdout(sink):
        for i, op in enumerate(ops):
            kind, slot = op[0], op[1]
            try:
                if kind == 'new':
                    text = json.dumps(D.to_json(DOCS[op[2]]))
                    if slot % 2 == 1:
                        # REPRESENTATION: the contents handed over as a mutable buffer that the caller re-uses afterwards
                        buf = bytearray(text.encode('utf-8'))
                        slots[slot] = DznJsonAst(buf)
                        buf[:] = b' ' * len(buf)
                        scratch.append(buf)
                    else:
                        slots[slot] = DznJsonAst(text)
                    slotdoc[slot] = op[2]
                elif kind in ('load', 'reload'):
                    if kind == 'load' or slot not in slots:
                        slots[slot] = DznJsonAst()
                    path = doc_file(op[2], pretty=(slot % 2 == 1 and kind == 'reload'))
                    if kind == 'load':
                        shared = os.path.join(os.path.dirname(path), 'shared.json')
                        shutil.copyfile(path, shared)
                        path = shared
                    ret = slots[slot].load_file(path)
                    if ret is not slots[slot]:
                        out.append(('load_file-not-fluent', f'op {i}'))
                    slotdoc[slot] = op[2]
                elif kind == 'loadbad':
                    if slot not in slots:
                        slots[slot] = DznJsonAst()
                    good = doc_file(0)
                    with open(good, 'rb') as fh:
                        raw = fh.read()
                    badpath = os.path.join(os.path.dirname(good), f'undecodable_{op[2]}.json')
                    with open(badpath, 'wb') as fh:
                        fh.write(UNDECODABLE[op[2]](raw))
                    try:
                        slots[slot].load_file(badpath)
                        slotdoc[slot] = None        # accepted after all: nothing is known about what it holds now
                    except Exception as exc:  # pylint: disable=broad-except
                        if i % 2 == 0:
                            kept.append(exc)
                        if slot in slotdoc and slotdoc[slot] is not None:
                            slotdoc[slot] = None    # whether the old document survives a failed load is not demanded
                elif kind == 'use':
                    # ordinary use of a result by its owner: qualified names composed from the COMPUTED namespace
                    # properties with the library's own in-place operator (q = el.parent_ns.fqn; q += el.name.value)
                    mine = [r for r in returned if r[1] == slot]
                    if not mine:
                        continue
                    res = mine[-1][2]
                    for cont in ('components', 'interfaces', 'enums', 'externs', 'foreigns', 'subints', 'systems'):
                        for el in getattr(res, cont):
                            qual = el.parent_ns.fqn
                            qual += el.name.value
                            if hasattr(el, 'ns_trail'):
                                trail = el.ns_trail.fqn
                                trail += el.name.value
                                trail.items.append('member')
                elif kind == 'process':
                    if slot not in slots or slotdoc.get(slot) is None:
                        continue   # nothing (known) to process: not an operation of this history
                    doc = slotdoc[slot]
                    try:
                        res = slots[slot].process()
                    except (DznJsonError, NamespaceIdsTypeError) as exc:
                        if EXPECTED[doc] is not None:
                            out.append(('valid-document-failed', f'op {i} {op}: {exc!r} history={ops}'))
                        errors[doc].add(f'{type(exc).__name__}: {exc}')
                        if i % 2 == 0:
                            kept.append(exc)      # the caller keeps the exception (and with it the traceback's frames) alive
                        continue
                    if EXPECTED[doc] is None:
                        out.append(('failing-document-succeeded', f'op {i} {op} history={ops}'))
                        continue
                    got = D.unparse(res)
                    cont, what = D.first_difference(EXPECTED[doc], got)
                    if cont:
                        nth = sum(1 for o in ops[:i + 1] if o == op)
                        key = 'reprocess-accumulates' if nth > 1 and _doubled(EXPECTED[doc], got) \
                            else f'result-differs:{cont}'
                        out.append((key, f'op {i} {op}: {what} | history={ops}'))
                    elif alone(doc) is not None and (res != alone(doc) or repr(res) != repr(alone(doc))):
                        out.append(('result-differs-from-parsing-alone-in-an-attribute',
                                    f'op {i} {op}: same declarations, but the result does not compare equal to the one '
                                    f'of a fresh parser (e.g. the namespace-tree links) | history={ops}'))
                    returned.append((i, slot, res, got))
                    resdoc[id(res)] = doc
            except Exception as exc:  # pylint: disable=broad-except
                out.append((f'exception:{type(exc).__name__}', f'op {i} {op}: {exc!r} history={ops}'))
            # results handed out earlier must not change
            for (j, _slot, obj, snap) in returned:
                if j == i:
                    continue
                now = D.unparse(obj)
                fresh = alone(resdoc.get(id(obj)))
                if now == snap and fresh is not None and id(obj) not in unequal and (obj != fresh or repr(obj) != repr(fresh)):
                    # EMBEDDING: a result that has been looked at (printed, walked, used) still compares equal to a fresh parse
                    unequal.add(id(obj))
                    out.append(('earlier-result-no-longer-equal-to-a-fresh-parse',
                                f'result of op {j}: same declarations, but after op {i} {op} it does not compare equal (==, repr) to '
                                f'the result of a fresh parser any more | history={ops}'))
                if now != snap:
                    cont, what = D.first_difference(snap, now)
                    out.append(('earlier-result-changed',
                                f'result of op {j} changed after op {i} {op}: {what} | history={ops}'))
                    returned[:] = [(a, b, c, D.unparse(c)) for (a, b, c, _d) in returned]
                    break
    for doc, msgs in errors.items():
        if len(msgs) > 1:
            out.append(('failing-document-fails-differently', f'doc {doc}: {sorted(msgs)} history={ops}'))
    def slot_state(slot):
        if slot not in slots:
            return None
        try:
            return D.unparse(slots[slot].file_contents)
        except Exception as exc:  # pylint: disable=broad-except
            return f'<unreadable: {type(exc).__name__}>'

    canon = jhash([[s, slotdoc.get(s), slot_state(s)]
                   for s in sorted(set(list(slots) + [0, 1, 2]))] + [globals_digest()])
    return out, canon


def _doubled(want, got):
    return any(len(got[c]) == 2 * len(want[c]) and want[c] for c in D.CONTAINERS)


def judge(case):
    try:
        res, _canon = run_history(case['history'])
        # de-duplicate by key, keep first
        seen, out = set(), []
        for key, what in res:
            if key not in seen:
                seen.add(key)
                out.append((key, what))
        return out
    finally:
        cleanup()


def work(job):
    kind, prefix_ops, nslots, depth = job
    part = Partial()
    ops = ops_alphabet(nslots)
    try:
        if kind == 'sweep':
            # all histories of exactly `depth` ops that start with prefix_ops (un-pruned)
            rest = depth - len(prefix_ops)
            for tail in itertools.product(ops, repeat=rest):
                hist = list(prefix_ops) + [list(o) for o in tail]
                _one(hist, part)
        elif kind == 'single':
            # ONE parser instance, longer histories: constructed with document d0, then every sequence of
            # load_file(d) / process() of exactly `depth` operations
            single_ops = [['reload', 0, d] for d in range(NSWEEP)] + [['process', 0]]
            for tail in itertools.product(single_ops, repeat=depth):
                hist = [list(o) for o in prefix_ops] + [list(o) for o in tail]
                _one(hist, part)
        elif kind == 'failkinds':
            # ONE instance (slot 0) loading valid and failing documents of every kind, a bystander instance (slot 1) that
            # is constructed and processed in between: every sequence of exactly `depth` operations
            fk_ops = [['reload', 0, d] for d in (0, 1, 2, 5, 6, 7, 8, 9)] + [['process', 0], ['new', 1, 0], ['process', 1]] + \
                     [['loadbad', 0, 'bom'], ['loadbad', 1, 'nan']]
            for tail in itertools.product(fk_ops, repeat=depth):
                hist = [list(o) for o in prefix_ops] + [list(o) for o in tail]
                if not any(o[0] == 'loadbad' or (o[0] == 'reload' and o[2] in (2, 5, 6, 7, 8, 9)) for o in hist) and \
                        prefix_ops[0][2] not in (2, 5, 6, 7, 8, 9):
                    continue
                _one(hist, part)
        elif kind == 'use':
            # two instances; between the parses the owner of a result USES it (composes qualified names in place)
            use_ops = [['use', 0], ['process', 0], ['new', 1, 1], ['new', 1, 0], ['process', 1], ['use', 1], ['reload', 0, 1],
                       ['new', 0, 3]]
            for tail in itertools.product(use_ops, repeat=depth):
                if ['use', 0] not in [list(o) for o in tail] and ['use', 1] not in [list(o) for o in tail]:
                    continue
                hist = [list(o) for o in prefix_ops] + [list(o) for o in tail]
                _one(hist, part)
        elif kind == 'big':
            # one or two instances, the big document and a small one: every sequence of `depth` operations
            big_ops = [['reload', 0, 4], ['reload', 0, 0], ['process', 0], ['new', 1, 1], ['process', 1], ['reload', 1, 4]]
            for tail in itertools.product(big_ops, repeat=depth):
                hist = [list(o) for o in prefix_ops] + [list(o) for o in tail]
                _one(hist, part)
    finally:
        cleanup()
    return part


def _one(hist, part):
    res, canon = run_history(hist)
    part.evaluations += 1
    part.transitions += len(hist)
    nproc = sum(1 for o in hist if o[0] == 'process')
    if nproc >= 1:
        part.nontrivial += 1
    part.outcome(f'process-ops={nproc}')
    for key, what in res:
        part.violation(key, what, {'history': hist})
    if part.evaluations % 4001 == 1:
        part.sample({'history': hist})
    return canon


def pruned_bfs(nslots, max_depth, part):
    ops = ops_alphabet(nslots)
    seen = set()
    frontier = collections.deque([[]])
    _, canon0 = run_history([])
    seen.add(canon0)
    depth_done = 0
    while frontier:
        hist = frontier.popleft()
        if len(hist) >= max_depth:
            continue
        for op in ops:
            nxt = hist + [op]
            canon = _one(nxt, part)
            depth_done = max(depth_done, len(nxt))
            if canon not in seen:
                seen.add(canon)
                frontier.append(nxt)
    part.states += len(seen)
    part.extra['pruned_bfs_depth'] = depth_done
    part.extra['pruned_bfs_states'] = len(seen)
    cleanup()


def explore(ctx):
    nslots = 3 if ctx.thorough else 2
    depth = 4
    ops = ops_alphabet(nslots)
    jobs = []
    for d in range(1, depth + 1):
        if d == 1:
            jobs.append(('sweep', [], nslots, 1))
        else:
            jobs += [('sweep', [list(o)], nslots, d) for o in ops]
    single_depth = 7 if ctx.thorough else 6
    for d0 in range(NSWEEP):
        for d in range(2, single_depth + 1):
            if d <= 4:
                jobs.append(('single', [['new', 0, d0]], 1, d))
            else:
                # split the big levels by their first operation
                for first in [['reload', 0, k] for k in range(NSWEEP)] + [['process', 0]]:
                    jobs.append(('single', [['new', 0, d0], first], 1, d - 1))
    for first in ([['new', 0, 4]], [['new', 0, 0]], [['new', 0, 4], ['process', 0]], [['new', 0, 0], ['process', 0]]):
        for d in (1, 2, 3):
            jobs.append(('big', first, 2, d))
    for d0 in range(NSWEEP):
        for d in range(1, 6 if ctx.thorough else 5):
            jobs.append(('use', [['new', 0, d0], ['process', 0]], 2, d))
    fk_depth = 5 if ctx.thorough else 4
    for d0 in (0, 2, 5, 8):
        for d in range(1, fk_depth + 1):
            if d <= 3:
                jobs.append(('failkinds', [['new', 0, d0]], 2, d))
            else:
                for first in [['reload', 0, k] for k in (0, 1, 2, 5, 6, 7, 8, 9)] + [['process', 0], ['new', 1, 0], ['process', 1],
                                                                                    ['loadbad', 0, 'bom'], ['loadbad', 1, 'nan']]:
                    jobs.append(('failkinds', [['new', 0, d0], first], 2, d - 1))
    # every kind of undecodable file, then a document with edge values, on the same and on another instance
    for kind_ in UNDECODABLE:
        for slot_bad in (0, 1):
            for doc in (8, 9, 0, 2):
                jobs.append(('failkinds', [['new', 0, 0], ['loadbad', slot_bad, kind_], ['reload', 0, doc], ['process', 0], ['process', 0]], 2, 0))
    for part in pmap(work, jobs):
        part.states = part.evaluations   # un-pruned: every history is its own state
        ctx.merge(part)
    bfs_part = Partial()
    pruned_bfs(nslots, 7 if ctx.thorough else 5, bfs_part)
    ctx.merge(bfs_part)
    ctx.rule = (f'all histories over {len(ops)} operations ({nslots} slots x (3 docs x new/reload/load-through-a-shared-rewritten-path + process)) of '
                f'length 1..{depth}, each replayed on fresh parser objects (un-pruned); plus a BFS pruned on the '
                'canonical state (per slot: document, normal form of accumulated contents; class/module globals) '
                f'to depth {7 if ctx.thorough else 5}; plus, on ONE parser instance, every sequence of load_file(d)/process() of length '
                f'<= {7 if ctx.thorough else 6} after construction with each document; plus histories in which the owner of a result uses '
                'it between the parses (qualified names composed in place from the computed namespace properties); '
                'non-trivial = history contains a process()')
    ctx.bounds = {'slots': nslots, 'documents': 4, 'unpruned_depth': depth, 'failure_kind_family_depth': fk_depth,
                  'pruned_depth': 7 if ctx.thorough else 5,
                  'single_instance_depth': 7 if ctx.thorough else 6}
    ctx.assumptions += ['pruning argument: a DznJsonAst holds only _ast, _file_contents, _ns_trail (immutable '
                        'root) and _verbose; module/class level mutable objects are part of the canonical state, '
                        'so a new hidden global shows up as a state change; cross-checked by the un-pruned sweep']
    ctx.min_outcomes = 3
