"""C01 - see DESIGN.md section 4/C01. Lab property: every model/configuration point within k deviations of
the base point is generated, compiled against the mock runtime and exercised by the generated driver."""
from . import labcommon

RULE = ('every (exposed port, event) pair of every model point, both travel directions: fired once from the originating side with pairwise distinct argument values while recorders sit on every event of every port; exactly one hit on the same-named event of the same-named port, arguments equal position by position, reply / out / inout values carried back; states = model points; non-trivial = points that produced assertion groups')
PID = 'C01'


def judge(case):
    return labcommon.judge_point(case, PID)


def explore(ctx):
    labcommon.explore_lab(ctx, PID, 1, 2)
    ctx.rule = RULE
    ctx.min_outcomes = 2
