"""C11 - generated multi-client support is correct under all thread interleavings.

Method: E3 - stateless DFS over ALL schedules of real std::threads running the compiled *generated*
        code under a cooperative scheduler (scheduling points = every pthread mutex acquire/release
        of the generated MutexWrapped via link-time interposition, every post to the dispatcher, every
        blocking wait), iterative preemption bounding, deadlock detection; work split over 16 processes
        by choice prefixes. A separate free-running ThreadSanitizer build of the same harness bodies
        covers unsynchronised accesses (a detector pass, not the deciding step).
Harnesses (vf/schedlab.py):
  H1 MutexWrapped<int>: 2-3 threads {acquire; read; point; write+1; release by reset() or scope exit}
     for every release-mode assignment; invariants: no two threads inside, final value = #threads,
     after reset() the others get in while the first still holds the (empty) pointer (else deadlock).
  H2 multi-client shell + legal arbiter component + dispatcher thread + 2-3 client threads doing
     claim -> [other in-event] -> [ask for an out-event and wait] -> release cycles + environment
     thread posting out-events at arbitrary times. Monitor on the dispatcher at every out-event:
     a client that held the claim (granted, release not yet invoked) during the whole raise must be
     the one and only receiver; never more than one receiver; never an idle receiver; every claim
     call returns only after the dispatcher ran it (blocking part of C02).
"""
import concurrent.futures
import re

from ..core import Partial, pmap, pqueue, HarnessError
from .. import schedlab as S

PID = 'C11'
RELEASE = '-O2 -DNDEBUG'


def classify(text):
    for needle, key in (('deadlock', 'deadlock'), ('horizon', 'livelock-horizon'),
                        ('holds the claim', 'holder-missed-out-event'),
                        ('more than one client', 'out-event-delivered-twice'),
                        ('idle client', 'out-event-to-idle-client'),
                        ('after its release call had returned', 'out-event-after-release-returned'),
                        ('before the dispatcher ran it', 'call-returned-before-dispatch'),
                        ('lost update', 'mutexwrapped-lost-update'),
                        ('two threads inside', 'mutexwrapped-not-exclusive')):
        if needle in text:
            return key
    return 'other'


# experiment = (name, harness, fixed args before bound, bound, split depth)
def experiments(thorough):
    exps = []
    for mode in range(4):
        exps.append((f'H1 2 threads mode={mode}', 'h1', [2, mode], -1, 0))
    if not thorough:
        for mode in (0, 7, 5):
            exps.append((f'H1 3 threads mode={mode}', 'h1', [3, mode], 2, 0))
        exps += [
            ('H2 2 clients, holder asks for out-event', 'h2', [2, 1, 0, 2], 2, 2),
            ('H2 2 clients, other in-event + asks', 'h2', [2, 1, 0, 3], 1, 2),
            ('H2 2 clients + environment events, asks', 'h2', [2, 1, 1, 2], 0, 2),
            ('H2 2 clients + environment events', 'h2', [2, 1, 1, 0], 1, 3),
            ('H2 3 clients, asks', 'h2', [3, 1, 0, 2], 0, 3),
            # the same around a shell that imports its facilities (the user owns the dispatcher)
            ('H2/import 2 clients, holder asks for out-event', 'h2i', [2, 1, 0, 2], 1, 2),
            ('H2/import 2 clients + environment events', 'h2i', [2, 1, 1, 0], 1, 3),
            ('H2/import 2 clients + environment events, asks', 'h2i', [2, 1, 1, 2], 0, 2),
            ('H2/bare interface (one out-event) 2 clients, asks', 'h2b', [2, 1, 0, 2], 1, 2),
            ('H2/import 2 clients, asks, denied clients send stale releases', 'h2i', [2, 1, 0, 6], 1, 2),
            ('H2 2 clients + environment events, stale releases', 'h2', [2, 1, 1, 4], 1, 3),
            ('H2/release build (-O2 -DNDEBUG) 2 clients, holder asks for out-event', 'h2n', [2, 1, 0, 2], 1, 2),
        ]
        for mode in range(4):
            exps.append((f'H1/release build (-O2 -DNDEBUG) 2 threads mode={mode}', 'h1n', [2, mode], -1, 0))
    else:
        for mode in range(8):
            exps.append((f'H1 3 threads mode={mode}', 'h1', [3, mode], -1, 3))
        exps += [
            ('H2 2 clients, asks - ALL schedules', 'h2', [2, 1, 0, 2], -1, 4),
            ('H2 2 clients, other + asks', 'h2', [2, 1, 0, 3], 2, 3),
            ('H2 2 clients + 1 environment event, asks', 'h2', [2, 1, 1, 2], 1, 3),
            ('H2 2 clients + 2 environment events', 'h2', [2, 1, 2, 0], 1, 3),
            ('H2 2 clients + environment events, bound 2', 'h2', [2, 1, 1, 0], 2, 4),
            ('H2 2 clients, 2 cycles, asks', 'h2', [2, 2, 0, 2], 2, 4),
            ('H2 3 clients, asks', 'h2', [3, 1, 0, 2], 1, 4),
            ('H2 3 clients, other + asks', 'h2', [3, 1, 0, 3], 0, 4),
            ('H2/import 2 clients, asks - ALL schedules', 'h2i', [2, 1, 0, 2], -1, 4),
            ('H2/import 2 clients + 1 environment event, asks', 'h2i', [2, 1, 1, 2], 1, 3),
            ('H2/import 2 clients + environment events, bound 2', 'h2i', [2, 1, 1, 0], 2, 4),
            ('H2/import 3 clients, asks', 'h2i', [3, 1, 0, 2], 1, 4),
            ('H2/bare interface (one out-event) 2 clients, asks', 'h2b', [2, 1, 0, 2], 2, 3),
            ('H2/bare interface 2 clients + environment events', 'h2b', [2, 1, 1, 0], 1, 3),
            ('H2/import 2 clients, asks, stale releases', 'h2i', [2, 1, 0, 6], 2, 3),
            ('H2/import 3 clients, asks, stale releases', 'h2i', [3, 1, 0, 6], 1, 4),
            ('H2 2 clients + environment events, stale releases', 'h2', [2, 1, 1, 4], 2, 4),
            ('H2/release build (-O2 -DNDEBUG) 2 clients, asks - ALL schedules', 'h2n', [2, 1, 0, 2], -1, 4),
            ('H2/release build (-O2 -DNDEBUG) 2 clients + environment events, bound 2', 'h2n', [2, 1, 1, 0], 2, 4),
        ]
        for mode in range(4):
            exps.append((f'H1/release build (-O2 -DNDEBUG) 2 threads mode={mode}', 'h1n', [2, mode], -1, 0))
        for mode in range(8):
            exps.append((f'H1/release build (-O2 -DNDEBUG) 3 threads mode={mode}', 'h1n', [3, mode], 2, 3))
    return exps


_BIN = {}


def job(item):
    """One sub-tree: run the harness binary on a choice prefix."""
    which, args, bound, prefix, cap = item
    binary = _BIN[which]
    csv = ','.join(map(str, prefix))
    if which.startswith('h1'):
        argv = args + [bound, csv, cap]
    else:
        argv = args + [bound, csv, cap, 0]
    code, lines, err = binary.run(argv)
    spawned = lines[0].get('spawned', []) if lines and code in (0, 1) else []
    return (item, code, lines, err), [(which, args, bound, pre, cap) for pre in spawned]


def run_experiment(ctx, name, which, args, bound, split):
    """Work sharing: every job explores at most CAP schedules of its sub-tree and hands the unexplored
    sub-trees (choice prefixes) back; a dynamic queue feeds them to the worker processes."""
    cap = 4000
    total = {'executions': 0, 'violations': 0, 'deadlocks': 0, 'points': 0, 'outcomes': {}, 'first': None,
             'demanded': 0, 'raised': 0}
    for item, code, lines, err in pqueue(job, [(which, args, bound, [], cap)]):
        if isinstance(code, int) and code < 0 and code not in (-9, -99) and 'SCHED-UNSUPPORTED' not in err:
            # the compiled program (generated code + harness) died from a signal under this schedule prefix: on the
            # unchanged tree this never happens; it is the generated code crashing, not "no verdict"
            what = [ln for ln in err.splitlines() if 'terminate' in ln or 'what()' in ln or 'Sanitizer' in ln][:2]
            ctx.violation(f'{which.upper()}:crash:signal{-code}', f'{name}: the program crashed (signal {-code}) on schedule '
                          f'prefix {item[3]}: {" ".join(what)[:200]}', {'harness': which, 'args': args, 'schedule': item[3]})
            continue
        if code not in (0, 1) or not lines:
            raise HarnessError(f'{name}: harness exit {code}: {err[-400:]}')
        res = lines[0]
        if res.get('diverged'):
            raise HarnessError(f'{name}: replay divergence on prefix {item[3]}')
        total['executions'] += res['executions']
        total['violations'] += res['violations']
        total['deadlocks'] += res['deadlocks']
        total['points'] += res['total_points']
        for k, v in res['outcomes'].items():
            total['outcomes'][k] = total['outcomes'].get(k, 0) + v
        if res['violations'] and (total['first'] is None or len(res['first_schedule']) < len(total['first'][1])):
            total['first'] = (res['first_violation'], res['first_schedule'])
        for extra in lines[1:]:
            total['demanded'] += extra.get('deliveries_demanded', 0)
            total['raised'] += extra.get('out_events_raised', 0)
    ctx.evaluations += total['executions']
    ctx.states += total['executions']
    ctx.transitions += total['points']
    ctx.nontrivial += total['executions']
    for k, v in total['outcomes'].items():
        ctx.outcomes[f'{which.upper()}: {k}'] += v
    ctx.extra['deliveries_demanded_by_monitor'] += total['demanded']
    ctx.extra['out_events_raised'] += total['raised']
    ctx.notes.setdefault('experiments', []).append(
        {'name': name, 'args': args, 'preemption_bound': 'unbounded' if bound < 0 else bound,
         'schedules': total['executions'], 'scheduling_points': total['points'], 'violations': total['violations'],
         'distinct_outcomes': len(total['outcomes']), 'complete': True})
    if total['first']:
        text, schedule = total['first']
        ctx.violation(f'{which.upper()}:{classify(text)}', f'{name}: {text} (schedule of {len(schedule)} choices)',
                      {'harness': which, 'args': args, 'schedule': schedule})
        ctx.nviol += total['violations'] - 1
    if len(ctx.samples) < 4:
        ctx.sample({'experiment': name, 'args': args, 'bound': bound, 'schedules': total['executions']})
    return total


def tsan_pass(ctx, src, thorough):
    runs = [('h1', [3, 6, 0, 400 if thorough else 150]), ('h1', [2, 2, 0, 400 if thorough else 150]),
            ('h2', [2, 2, 1, 3, 0, 300 if thorough else 80]), ('h2', [3, 2, 1, 3, 0, 300 if thorough else 60]),
            ('h2', [3, 1, 2, 1, 0, 300 if thorough else 60]), ('h2i', [2, 2, 1, 3, 0, 300 if thorough else 60]),
            ('h2i', [3, 1, 2, 1, 0, 300 if thorough else 60])]
    for which, args in runs:
        binary = _BIN[which + '_tsan']
        code, lines, err = binary.run(args, timeout=900 if thorough else 600)
        if code == -99:
            # real threads, no scheduler: a hang here is a deadlock of the generated code under a real schedule
            ctx.violation(f'free-run:{which}:hang', f'free-running {which} {args} did not finish (deadlock under a real '
                          'schedule)', {'harness': which + '_tsan', 'args': args})
            ctx.extra['tsan_runs'] += 1
            continue
        races = set(re.findall(r'SUMMARY: ThreadSanitizer: (.*)', err))
        ctx.extra['tsan_runs'] += 1
        ctx.extra['tsan_iterations'] += args[-1]
        for race in races:
            where = race.replace(binary.tmp + '/', '')
            if 'h1.cc' in where or 'h2.cc' in where or 'mock_thr' in where:
                raise HarnessError(f'data race inside the harness itself: {where}')
            ctx.violation(f'tsan:{where[:80]}', f'free-running {which} {args}: {where}',
                          {'harness': which + '_tsan', 'args': args})
        if code not in (0, 66) and not races:
            bad = lines[0].get('bad') if lines else None
            ctx.violation(f'free-run:{which}:bad-iterations', f'free-running {which} {args}: exit {code} bad={bad} {err[-300:]}',
                          {'harness': which + '_tsan', 'args': args})


def compile_all(src, src_import=None, src_bare=None):
    specs = {'h1': (src, ['h1.cc', 'sched_interpose.cc'], 'sched'), 'h2': (src, ['h2.cc', 'sched_interpose.cc'], 'sched'),
             'h1_tsan': (src, ['h1.cc', 'sched_free.cc'], 'tsan'), 'h2_tsan': (src, ['h2.cc', 'sched_free.cc'], 'tsan')}
    if src_import:
        # the same multi-client harness around a shell that IMPORTS its facilities
        specs['h2i'] = (src_import, ['h2.cc', 'sched_interpose.cc'], 'sched')
        specs['h2i_tsan'] = (src_import, ['h2.cc', 'sched_free.cc'], 'tsan')
    if src_bare:
        # ... and around a multi-client interface that has nothing but claim, release and ONE out-event
        specs['h2b'] = (src_bare, ['h2.cc', 'sched_interpose.cc'], 'sched')
    # the same harnesses the way a RELEASE configuration of the user's project compiles the generated headers
    specs['h1n'] = (src, ['h1.cc', 'sched_interpose.cc'], 'sched', RELEASE)
    specs['h2n'] = (src, ['h2.cc', 'sched_interpose.cc'], 'sched', RELEASE)
    bins = {k: S.Binary(spec[0], spec[1], spec[2], *spec[3:]) for k, spec in specs.items()}
    with concurrent.futures.ThreadPoolExecutor(4) as pool:
        list(pool.map(lambda b: b.__enter__(), bins.values()))
    return bins


def judge(case):
    which = case['harness']
    delta = dict(case.get('model_delta') or {})
    if which.startswith('h2b'):
        delta['mcmenu'] = 'bare'
    if which.startswith('h2i'):
        delta['fac'] = 'import'
    src = S.sources(S.mc_case(delta))
    mains = {'h1': ['h1.cc', 'sched_interpose.cc'], 'h2': ['h2.cc', 'sched_interpose.cc'],
             'h2i': ['h2.cc', 'sched_interpose.cc'], 'h2i_tsan': ['h2.cc', 'sched_free.cc'],
             'h2b': ['h2.cc', 'sched_interpose.cc'], 'h1n': ['h1.cc', 'sched_interpose.cc'], 'h2n': ['h2.cc', 'sched_interpose.cc'],
             'h1_tsan': ['h1.cc', 'sched_free.cc'], 'h2_tsan': ['h2.cc', 'sched_free.cc']}[which]
    with S.Binary(src, mains, 'tsan' if which.endswith('tsan') else 'sched', *([RELEASE] if which.endswith('n') and not which.endswith('tsan') else [])) as binary:
        if binary.exe is None:
            return [('harness-does-not-compile', binary.error[:300])]
        if which.endswith('tsan'):
            code, _lines, err = binary.run(case['args'])
            races = set(re.findall(r'SUMMARY: ThreadSanitizer: (.*)', err))
            return [(f'tsan:{r[:80]}', r) for r in races]
        csv = ','.join(map(str, case['schedule']))
        argv = case['args'] + ([0, csv, 1] if which.startswith('h1') else [0, csv, 1, 0])
        import os  # pylint: disable=import-outside-toplevel
        os.environ['VF_NOCACHE'] = '1'
        _code, lines, _err = binary.run(argv)
        res = lines[0] if lines else {}
        if res.get('violations'):
            return [(f'{which.upper()}:{classify(res["first_violation"])}', res['first_violation'])]
        return []


def explore(ctx):
    src = S.sources(S.mc_case())
    bins = compile_all(src, S.sources(S.mc_case({'fac': 'import'})), S.sources(S.mc_case({'mcmenu': 'bare'})))
    try:
        for key, binary in bins.items():
            if binary.exe is None:
                ctx.violation(f'harness-does-not-compile:{key}', binary.error[:600], {'harness': key, 'args': []})
        if ctx.violations:
            ctx.evaluations += 1
            return
        _BIN.update(bins)
        for name, which, args, bound, split in experiments(ctx.thorough):
            run_experiment(ctx, name, which, args, bound, split)
        tsan_pass(ctx, src, ctx.thorough)
    finally:
        for binary in bins.values():
            binary.__exit__(None, None, None)
    ctx.rule = ('every schedule of the harness threads within the stated preemption bound (stateless DFS over choice '
                'prefixes on the real compiled generated code; enabled list in canonical order, switching away from a '
                'runnable thread costs one preemption; unbounded where stated); states = complete schedules executed; '
                'transitions = scheduling points passed; every schedule is non-trivial (at least two threads compete)')
    ctx.bounds = {'experiments': 'see coverage.experiments (name, arguments, preemption bound, schedules)'}
    ctx.trusted_base += ['vf/cxx/sched.hh scheduler + link-time interposition of pthread_mutex_*', 'mock scheduled pump',
                         'g++ 12 libstdc++ (std::mutex -> pthread_mutex_lock/unlock)', 'ThreadSanitizer (detector pass)']
    ctx.assumptions += ['scheduling points are synchronisation operations; the C++ memory model below that is covered only '
                        'by the free-running ThreadSanitizer pass',
                        'events raised while a grant has not yet returned to the client are not demanded',
                        'three clients are explored at a lower preemption bound than two (stated per experiment)']
    ctx.min_outcomes = 4
