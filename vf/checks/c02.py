"""C02 - see DESIGN.md section 4/C02. Lab property: every model/configuration point within k deviations of
the base point is generated, compiled against the mock runtime and exercised by the generated driver."""
from . import labcommon

RULE = ("per exposed port: accessor return type (Sts<>/Mts<> of the right interface), port identity (STS = the component's own port object), and per event: dispatcher involvement measured on the step pump (posted counter, in_dispatch flag, deferred queueing of requires out-events with the arguments overwritten and the stack scrubbed before draining, under AddressSanitizer use-after-return detection)")
PID = 'C02'


def judge(case):
    return labcommon.judge_point(case, PID)


def explore(ctx):
    labcommon.explore_lab(ctx, PID, 1, 2)
    ctx.rule = RULE
    ctx.min_outcomes = 2
