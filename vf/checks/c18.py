"""C18 - indentation shifts text without changing it.

Space : every line sequence of length 0..3 over {'', 'a', ' a', 'a  ', '  ', '\\t', 'a b'} x every
        indenter configuration {spaces,tab} x width {0,1,2,4,5} x {no bullets, all lines, first only}
        x glyph {'-','//','-->','*'} (+ the two factory presets) ; through to_list, to_str,
        TextBlock.indent (with/without header, explicit/pre-set indentor) and indentation twice.
Oracle: direct specification written from the statement (see spec()).
"""
import itertools

from ..core import Partial, pmap

PID = 'C18'

LINE_ALPHABET = ['', 'a', ' a', 'a  ', '  ', '\t', 'a b']
GLYPHS = ['-', '//', '-->', '*']
WIDTHS = [0, 1, 2, 4, 5]


def configs():
    for indentor in ('SPACES', 'TAB'):
        for count in WIDTHS:
            yield {'indentor': indentor, 'count': count, 'mode': None, 'glyph': None}
            for mode in ('ALL', 'FIRST_ONLY'):
                for glyph in GLYPHS:
                    yield {'indentor': indentor, 'count': count, 'mode': mode, 'glyph': glyph}
    for preset in ('all_dashes_t', 'initial_dash_t'):
        for indentor in ('SPACES', 'TAB', None):
            yield {'preset': preset, 'indentor': indentor, 'count': 2,
                   'mode': 'ALL' if preset == 'all_dashes_t' else 'FIRST_ONLY', 'glyph': '-'}


def mk_indentizer(cfg):
    from dznpy import text_gen as T  # pylint: disable=import-outside-toplevel
    if 'preset' in cfg:
        fn = getattr(T, cfg['preset'])
        if cfg['indentor'] is None:
            return fn(None)
        return fn(T.Indentor[cfg['indentor']])
    bullet = None
    if cfg['mode']:
        bullet = T.BulletList(mode=T.BulletListMode[cfg['mode']], glyph=cfg['glyph'])
    return T.Indentizer(indentor=T.Indentor[cfg['indentor']], spaces_count=cfg['count'],
                        bullet_list=bullet)


def prefixes(cfg):
    """(first_line_prefix, other_lines_prefix) from the statement."""
    tab = cfg['indentor'] == 'TAB'
    if not cfg['mode']:
        ws = '\t' if tab else ' ' * cfg['count']
        return ws, ws
    if tab:
        bullet, cont = cfg['glyph'] + '\t', '\t'
    else:
        bullet = (cfg['glyph'] + ' ').ljust(cfg['count'])
        cont = ' ' * len(bullet)
    if cfg['mode'] == 'ALL':
        return bullet, bullet
    return bullet, cont


def acceptable(line, prefix, bullet_line):
    """Acceptable renderings of one input line."""
    full = prefix + line
    if line.strip() == '':
        # blank: stays empty; a bullet line may show the bare glyph; never trailing whitespace
        return {'', full.rstrip()}
    if bullet_line:
        return {full, full.rstrip()}
    return {full}


def spec_ok(lines, out, cfg):
    if len(out) != len(lines):
        return f'line count {len(lines)} -> {len(out)}'
    first, other = prefixes(cfg)
    for i, (src, dst) in enumerate(zip(lines, out)):
        prefix = first if i == 0 else other
        bullet_line = bool(cfg['mode']) and (cfg['mode'] == 'ALL' or i == 0)
        if dst not in acceptable(src, prefix, bullet_line):
            return (f'line {i}: {src!r} -> {dst!r}, expected one of '
                    f'{sorted(acceptable(src, prefix, bullet_line))!r}')
    return None


def judge_threads(case):
    from .. import pysched  # pylint: disable=import-outside-toplevel
    ind = mk_indentizer(case['cfg'])
    fn_a, fn_b = (lambda: ind.to_list(case['la'])), (lambda: ind.to_str(case['lb']))
    ref_a, ref_b = pysched.outcome(fn_a), pysched.outcome(fn_b)
    obs = []
    for _rep in range(2):
        res_a, res_b, reached = pysched.run_preempted(fn_a, fn_b, case['index'])
        if not reached:
            raise RuntimeError('replay divergence')
        obs.append((res_a, res_b))
    if obs[0] != obs[1]:
        raise RuntimeError('the same schedule gave two observations')
    if obs[0] != (ref_a, ref_b):
        return [('shared-indenter-two-threads', f'replayed: {obs[0]} alone: {(ref_a, ref_b)}')]
    return []



# FAILURE PATHS: a rendering that dies half-way (a content item whose __str__ raises) changes nothing: the same indenter
# object, the same list / dict objects (repaired in place) and the same text block afterwards render exactly like fresh,
# equal ones.

class _Boom(Exception):
    pass


class _BaseBoom(BaseException):
    pass


class _Poison:
    def __init__(self, exc):
        self.exc = exc

    def __str__(self):
        raise self.exc('poisoned item')


REFUSED_SHAPES = {
    'first': lambda p: [p, 'b', '', 'c'], 'middle': lambda p: ['a', p, 'b'], 'last': lambda p: ['a', '', p],
    'nested': lambda p: ['a', ['b', [p]], 'c'], 'dict': lambda p: {'k': 'a', 'l': p, 'm': 'b'}, 'alone': lambda p: [p],
}


def _repair(obj):
    if isinstance(obj, list):
        for i, x in enumerate(obj):
            if isinstance(x, _Poison):
                obj[i] = 'fixed'
            else:
                _repair(x)
    elif isinstance(obj, dict):
        for k, x in list(obj.items()):
            if isinstance(x, _Poison):
                obj[k] = 'fixed'
            else:
                _repair(x)


def judge_refused(case):
    import copy  # pylint: disable=import-outside-toplevel
    from dznpy.text_gen import TextBlock  # pylint: disable=import-outside-toplevel
    out = []
    cfg = case['cfg']
    exc = {'Exception': _Boom, 'BaseException': _BaseBoom}[case['exc']]
    try:
        ind = mk_indentizer(cfg)
        content = REFUSED_SHAPES[case['shape']](_Poison(exc))
        for via in case['via']:
            try:
                if via == 'to_list':
                    ind.to_list(content)
                elif via == 'to_str':
                    ind.to_str(content)
                else:
                    TextBlock(['x']).append(content)
            except (Exception, _BaseBoom):  # pylint: disable=broad-except
                pass
        _repair(content)
        twin = copy.deepcopy(content)
        fresh = mk_indentizer(cfg)
        got, ref = ind.to_list(content), fresh.to_list(twin)
        if got != ref:
            out.append(('rendering-after-a-failed-one', f'{case}: same indenter and same (repaired) content objects: {got!r}; '
                                                        f'fresh equal ones: {ref!r}'))
        if ind.to_str(content) != fresh.to_str(twin):
            out.append(('rendering-after-a-failed-one:to_str', f'{case}'))
        got2, ref2 = fresh.to_list(content), fresh.to_list(twin)
        if got2 != ref2:
            out.append(('rendering-after-a-failed-one:other-indenter', f'{case}: {got2!r} vs {ref2!r}'))
        blk, blk2 = TextBlock(content), TextBlock(twin)
        if blk.indent(ind).lines != blk2.indent(fresh).lines:
            out.append(('rendering-after-a-failed-one:textblock', f'{case}'))
        # ... and unrelated content rendered with the indenter that saw the failure
        if ind.to_list(['u', '', 'v']) != fresh.to_list(['u', '', 'v']):
            out.append(('rendering-after-a-failed-one:unrelated-content', f'{case}'))
    except (Exception, _BaseBoom) as err:  # pylint: disable=broad-except
        out.append((f'rendering-after-a-failed-one:exception:{type(err).__name__}', f'{case}: {err!r}'))
    return out


def judge(case):
    if case.get('threads'):
        return judge_threads(case)
    if case.get('refused'):
        return judge_refused(case)
    from dznpy.text_gen import TextBlock  # pylint: disable=import-outside-toplevel
    lines, cfg = case['lines'], case['cfg']
    out = []

    def bad(key, what):
        out.append((key, f'{what} | lines={lines!r} cfg={cfg!r}'))

    try:
        ind = mk_indentizer(cfg)
        res = ind.to_list(list(lines))
        if not isinstance(res, list) or any(not isinstance(x, str) for x in res):
            bad('to_list-type', f'result={res!r}')
            return out
        err = spec_ok(lines, res, cfg)
        if err:
            bad('to_list', err)
        # nested content gives the same as flat content
        if lines and ind.to_list([list(lines[:1]), {'k': list(lines[1:])}]) != res:
            bad('to_list-nested', 'nested list/dict content rendered differently')
        # repeated indentation: the spec applied to the first result
        res2 = ind.to_list(list(res))
        err = spec_ok(res, res2, cfg)
        if err:
            bad('to_list-twice', err)
        # REENTRANCY: a content item whose __str__ renders other content with this very indenter (a shared style
        # constant used by a nested text object) - same result as with the inner rendering handed over as plain lines
        inner = ind.to_list(['in1', '', 'in2'])

        class Nested:  # pylint: disable=too-few-public-methods
            def __str__(self):
                return '\n'.join(ind.to_list(['in1', '', 'in2']))
        for pos in sorted({0, len(lines)}):
            plain = list(lines[:pos]) + ['\n'.join(inner)] + list(lines[pos:])
            nested = list(lines[:pos]) + [Nested()] + list(lines[pos:])
            want = ind.to_list(plain)
            if ind.to_list(nested) != want:
                bad('to_list-reentrant', f'content item at {pos} that renders with the same indenter while being stringified: '
                                         f'{ind.to_list(nested)!r}, with its text handed over as a string: {want!r}')
            if ind.to_list(list(lines)) != res:
                bad('to_list-after-reentrant-use', 'a later plain call differs')
        # string form
        try:
            as_str = ind.to_str(list(lines))
            if lines:
                if as_str != '\n'.join(res) + '\n':
                    bad('to_str', f'to_str={as_str!r} to_list={res!r}')
            elif as_str not in ('', '\n'):
                bad('to_str-empty', f'to_str={as_str!r}')
        except RecursionError:
            bad('to_str:RecursionError', 'Indentizer.to_str() recurses forever')
        # lines containing characters that str.splitlines() treats as boundaries (but that are not '\n'):
        # for the indenter they are ordinary text; list form and string form must still agree
        for odd in ('a\x0cb', 'a\rb', 'a\x0bb', 'a\x85b', 'a\u2028b', 'x\x1cy'):
            lst = ind.to_list(list(lines) + [odd])
            if len(lst) != len(lines) + 1 or ind.to_str(list(lines) + [odd]) != '\n'.join(lst) + '\n':
                bad('to_str-disagrees-on-exotic-line', f'odd line {odd!r}: to_list={lst!r} '
                                                      f'to_str={ind.to_str(list(lines) + [odd])!r}')
                break
        # other ways of handing over the same content: a single bare string instead of a
        # one-element list, and bare scalars that are "falsy" (0, 0.0, False, '')
        if len(lines) == 1:
            if ind.to_list(lines[0]) != res or ind.to_str(lines[0]) != ind.to_str(list(lines)):
                bad('bare-string-content', f'to_list({lines[0]!r})={ind.to_list(lines[0])!r} to_list([..])={res!r}')
        if not lines:
            for scalar in (0, 0.0, False, 7, -1, True, ''):
                via_list = ind.to_list([scalar])
                if ind.to_list(scalar) != via_list or ind.to_str(scalar) != ind.to_str([scalar]):
                    bad('bare-scalar-content', f'to_list({scalar!r})={ind.to_list(scalar)!r} but to_list([{scalar!r}])={via_list!r}')
                if scalar != '' and spec_ok([str(scalar)], via_list, cfg):
                    bad('scalar-content', f'to_list([{scalar!r}])={via_list!r}: {spec_ok([str(scalar)], via_list, cfg)}')
        # TextBlock.indent, explicit argument and pre-set indentor, with and without header
        for header, how in itertools.product((None, 'Hdr'), ('arg', 'preset')):
            blk = TextBlock(list(lines), header=header)
            if how == 'arg':
                ret = blk.indent(mk_indentizer(cfg))
            else:
                ret = blk.set_indentor(mk_indentizer(cfg)).indent()
            if ret is not blk:
                bad('indent-not-self', how)
            err = spec_ok(lines, blk.lines, cfg)
            if err:
                bad('textblock-indent', f'{how} header={header!r}: {err}')
            expect = ''.join(x + '\n' for x in ([header] if header else []) + blk.lines)
            if str(blk) != expect:
                bad('textblock-header-indented', f'str={str(blk)!r} expected={expect!r}')
            # repeated indentation of the same block: a plain indent() keeps using the configured indentor
            once = list(blk.lines)
            blk.indent()
            err = spec_ok(once, blk.lines, cfg)
            if err:
                bad('textblock-indent-twice', f'{how} header={header!r}: second plain indent(): {err}')
        # a header given as a TextBlock OBJECT: never indented - neither with the owning block nor later through the
        # header object itself (indent / append / trim / lines setter on it must not reach the owning block)
        for how in ('arg', 'preset'):
            hdr_obj = TextBlock(['Hdr', '  Hdr2'])
            blk = TextBlock(list(lines), header=hdr_obj)
            if how == 'arg':
                blk.indent(mk_indentizer(cfg))
            else:
                blk.set_indentor(mk_indentizer(cfg)).indent()
            expect = 'Hdr\n  Hdr2\n' + ''.join(x + '\n' for x in blk.lines)
            if str(blk) != expect or hdr_obj.lines != ['Hdr', '  Hdr2']:
                bad('textblock-object-header-indented', f'{how}: str={str(blk)!r} expected={expect!r} header object={hdr_obj.lines!r}')
            hdr_obj.indent(mk_indentizer(cfg))
            if str(blk) != expect:
                bad('header-follows-later-indent-of-header-object', f'{how}: str={str(blk)!r} expected={expect!r}')
            hdr_obj.append('more')
            hdr_obj.trim()
            hdr_obj.lines = ['x']
            if str(blk) != expect:
                bad('header-follows-later-change-of-header-object', f'{how}: str={str(blk)!r} expected={expect!r}')
        # default indentor of a TextBlock = 4 spaces (documented module default)
        blk = TextBlock(list(lines)).indent()
        err = spec_ok(lines, blk.lines, {'indentor': 'SPACES', 'count': 4, 'mode': None,
                                         'glyph': None})
        if err:
            bad('textblock-default-indent', err)
    except Exception as exc:  # pylint: disable=broad-except
        bad(f'exception:{type(exc).__name__}', repr(exc))
    return out


def work(slot):
    idx, nslots = slot
    part = Partial()
    seqs = [list(s) for n in range(0, 4) for s in itertools.product(LINE_ALPHABET, repeat=n)]
    cfgs = list(configs())
    k = 0
    for cfg in cfgs:
        for lines in seqs:
            k += 1
            if k % nslots != idx:
                continue
            case = {'lines': lines, 'cfg': cfg}
            res = judge(case)
            part.evaluations += 1
            part.transitions += 1
            if any(x.strip() for x in lines):
                part.nontrivial += 1
            part.outcome(f'{cfg["indentor"]}/{cfg["mode"]}/{len(lines)}')
            for key, what in res:
                part.violation(key, what, case)
            if k % 4999 == 1:
                part.sample(case)
    # SIZE: sequences of 4..12 lines, each line blank or text (every pattern), on a representative subset of the
    # configurations (spaces 2 / tab x no bullets / all / first-only x glyphs '-' and '-->')
    long_cfgs = [c for c in cfgs if 'preset' not in c and c['count'] in (2,) and c['glyph'] in (None, '-', '-->')]
    for n in range(4, 13):
        for mask in range(1 << n):
            lines = ['' if mask >> i & 1 else f't{i}' for i in range(n)]
            for cfg in long_cfgs:
                k += 1
                if k % nslots != idx:
                    continue
                case = {'lines': lines, 'cfg': cfg}
                res = judge(case)
                part.evaluations += 1
                part.transitions += 1
                part.nontrivial += 1
                part.outcome(f'{cfg["indentor"]}/{cfg["mode"]}/long')
                for key, what in res:
                    part.violation(key, what, case)
    # SCHEDULES: two Python threads render different contents with ONE shared indenter object (a module-level style
    # constant): every one-preemption schedule gives both their sequential result
    from .. import pysched  # pylint: disable=import-outside-toplevel
    for ci, cfg in enumerate(long_cfgs + [c for c in cfgs if 'preset' in c]):
        if ci % nslots != idx:
            continue
        ind = mk_indentizer(cfg)
        for la, lb in ((['a1', '', 'a2'], ['b1', 'b2']), (['a1'], ['b1', '', 'b2', 'b3']), ([['a1', 'a2'], 'a3'], ['b1'])):
            fn_a, fn_b = (lambda la=la: ind.to_list(la)), (lambda lb=lb: ind.to_str(lb))
            ref_a, ref_b = pysched.outcome(fn_a), pysched.outcome(fn_b)
            for i, loc, res_a, res_b in pysched.explore_pair(fn_a, fn_b, every=1):
                part.evaluations += 1
                part.transitions += 2
                part.nontrivial += 1
                part.extra['python_thread_schedules'] += 1
                part.outcome('shared-indenter-two-threads')
                if res_a != ref_a or res_b != ref_b:
                    part.violation('shared-indenter-two-threads',
                                   f'one Indentizer used by two threads: thread A to_list({la!r}) preempted at line event {i} '
                                   f'({loc[0].split("/")[-1]}:{loc[1]}), thread B to_str({lb!r}) in between: A={res_a!r} (alone {ref_a!r}) '
                                   f'B={res_b!r} (alone {ref_b!r}) | cfg={cfg!r}',
                                   {'threads': True, 'cfg': cfg, 'la': la, 'lb': lb, 'index': i})
    # FAILURE PATHS
    for ci, cfg in enumerate(long_cfgs + [c for c in cfgs if 'preset' in c]):
        if ci % nslots != idx:
            continue
        for shape in REFUSED_SHAPES:
            for exc in ('Exception', 'BaseException'):
                for via in (['to_list'], ['to_str'], ['append'], ['to_list', 'to_list'], ['to_str', 'append', 'to_list']):
                    case = {'refused': True, 'cfg': cfg, 'shape': shape, 'exc': exc, 'via': via}
                    part.evaluations += 1
                    part.transitions += len(via) + 1
                    part.nontrivial += 1
                    part.outcome('rendering-after-a-failed-one')
                    for key, what in judge_refused(case):
                        part.violation(key, what, case)
    part.states = part.evaluations
    return part


def explore(ctx):
    ctx.rule = ('product of all line sequences (len 0..3 over 7 line shapes) and all indenter '
                'configurations incl. factory presets; each (sequence, configuration) pair is one state; '
'non-trivial = at least one non-blank line; plus a content item that renders with the same indenter while '
                'being stringified (reentrancy); plus two Python threads sharing one indenter object: every one-preemption '
                'schedule at every library line event')
    ctx.bounds = {'lines': 3, 'line_alphabet': LINE_ALPHABET, 'widths': WIDTHS, 'glyphs': GLYPHS,
                  'long_sequences': '4..12 lines, every blank/text pattern, 10 configurations'}
    for part in pmap(work, [(i, 16) for i in range(16)]):
        ctx.merge(part)
    ctx.assumptions += [
        'bullet lines may be right-stripped (trailing blanks of the input line dropped)',
        "a blank input line on a bullet line may render as '' or as the bare glyph",
        'glyphs beginning with whitespace and lines containing line breaks are outside the alphabet',
        'to_str of empty content may be "" or a single newline',
    ]
    ctx.min_outcomes = 6
