"""C20 - C++ building blocks render matching declarations and definitions.

Space : Function: return type {void,int,const T&,T*,Tpl<A>,::N::T} x parameter lists of length 0..2 over
        {plain, plain+default, const-ref+default, pointer+default, template-arg} x prefix {member,
        virtual,static} x cav {'',const} x override x initialization {'',default,0,delete} x contents
        {'',1 line,2 lines with a blank line} x scope {none,struct,class};
        Constructor: explicit x params x initialization x member-init list 0..2 x contents x scope;
        Destructor: override x initialization x contents x scope; Namespace ids of length 0..3 x
        contents; Struct/Class; AccessSpecifiedSection; includes; MemberVariable; Param; Fqn.
Oracle: an independent C++ tokenizer; the token stream of as_decl / as_def must EQUAL the token stream
        derived from the description (so name, parameter types/names/order, constness agree, defaults
        / virtual / static / explicit / override / '= ...' occur only in the declaration, the definition
        is qualified by the owner); as_def == '' iff initialised; definition body = contents indented by
        4 spaces between '{' and '}'; rejected combinations raise CppGenError only.
        Compile: every semantically meaningful description is composed into structs inside the
        rendered namespace (declarations inside, definitions after) and checked by g++ -fsyntax-only.
"""
import itertools
import os
import re
import shutil
import subprocess
import tempfile

from ..core import Partial, pmap, HarnessError

PID = 'C20'

TOKEN_RE = re.compile(r'"(?:[^"\\]|\\.)*"|::|[A-Za-z_0-9]+|//[^\n]*|\S')


def tokens(text):
    return [t for t in TOKEN_RE.findall(text) if not t.startswith('//')]


# ---- description -> dznpy objects / expected tokens ----------------------------------------

RET_TYPES = [
    {'fqn': ['void'], 'root': False, 'targ': None, 'post': '', 'const': False},
    {'fqn': ['int'], 'root': False, 'targ': None, 'post': '', 'const': False},
    {'fqn': ['T'], 'root': False, 'targ': None, 'post': '&', 'const': True},
    {'fqn': ['T'], 'root': False, 'targ': None, 'post': '*', 'const': False},
    {'fqn': ['Tpl'], 'root': False, 'targ': ['A'], 'post': '', 'const': False},
    {'fqn': ['N', 'T'], 'root': True, 'targ': None, 'post': '', 'const': False},
]
PARAM_KINDS = [
    {'fqn': ['int'], 'root': False, 'targ': None, 'post': '', 'const': False, 'default': None},
    {'fqn': ['int'], 'root': False, 'targ': None, 'post': '', 'const': False, 'default': '123'},
    {'fqn': ['T'], 'root': False, 'targ': None, 'post': '&', 'const': True, 'default': '{}'},
    {'fqn': ['T'], 'root': False, 'targ': None, 'post': '*', 'const': True, 'default': 'nullptr'},
    {'fqn': ['Tpl'], 'root': True, 'targ': ['N', 'T'], 'post': '', 'const': False, 'default': None},
]
CONTENTS = ['', 'int x = 0;', 'int y = 1;\n\n(void)y;']
INITS = ['', 'default', '0', 'delete']


def mk_type(enc):
    from dznpy import cpp_gen as G  # pylint: disable=import-outside-toplevel
    from dznpy.scoping import NamespaceIds  # pylint: disable=import-outside-toplevel
    if enc.get('none'):
        return G.TypeDesc(G.fqn_t(''))       # "no return type": a conversion operator
    targ = G.TemplateArg(G.Fqn(NamespaceIds(list(enc['targ'])))) if enc['targ'] else None
    post = {'': G.TypePostfix.NONE, '&': G.TypePostfix.REFERENCE, '*': G.TypePostfix.POINTER}[enc['post']]
    return G.TypeDesc(fqn=G.Fqn(NamespaceIds(list(enc['fqn'])), enc['root']), template_arg=targ, postfix=post,
                      const=enc['const'], default_value=enc.get('default'))


def type_tokens(enc):
    if enc.get('none'):
        return []
    out = ['const'] if enc['const'] else []
    if enc['root']:
        out.append('::')
    for i, ident in enumerate(enc['fqn']):
        if i:
            out.append('::')
        out.append(ident)
    if enc['targ']:
        out.append('<')
        for i, ident in enumerate(enc['targ']):
            if i:
                out.append('::')
            out.append(ident)
        out.append('>')
    if enc['post']:
        out.append(enc['post'])
    return out


def param_tokens(params, with_defaults):
    out = []
    for i, p in enumerate(params):
        if i:
            out.append(',')
        out += type_tokens(p) + [f'a{i}']
        if with_defaults and p.get('default'):
            out += ['='] + tokens(p['default'])
    return out


def mk_params(params):
    from dznpy import cpp_gen as G  # pylint: disable=import-outside-toplevel
    return [G.Param(type_desc=mk_type(p), name=f'a{i}') for i, p in enumerate(params)]


def _prefix(G, name):
    return G.FunctionPrefix.MEMBER_FUNCTION if name == 'MEMBER' else G.FunctionPrefix[name]


def mk_scope(kind, name='S'):
    from dznpy import cpp_gen as G  # pylint: disable=import-outside-toplevel
    if kind == 'struct':
        return G.Struct(name)
    if kind == 'class':
        return G.Class(name)
    return None


def body_ok(text, signature_tokens, contents):
    """Definition text = signature line(s), then either ' {}' or '{' + indented contents + '}'."""
    lines = text.split('\n')
    if lines[-1] != '':
        return 'definition does not end with a newline'
    lines = lines[:-1]
    if not contents:
        if tokens(text) != signature_tokens + ['{', '}']:
            return f'tokens {tokens(text)} expected {signature_tokens + ["{", "}"]}'
        return None
    want_body = [('    ' + ln if ln.strip() else '') for ln in contents.split('\n')]
    try:
        open_idx = lines.index('{')
    except ValueError:
        return "no '{' line"
    if lines[-1] != '}':
        return "last line is not '}'"
    if tokens('\n'.join(lines[:open_idx])) != signature_tokens:
        return f'signature tokens {tokens(chr(10).join(lines[:open_idx]))} expected {signature_tokens}'
    if lines[open_idx + 1:-1] != want_body:
        return f'body {lines[open_idx + 1:-1]} expected {want_body}'
    return None


def judge(case):
    from dznpy import cpp_gen as G  # pylint: disable=import-outside-toplevel
    kind = case['kind']
    out = []
    if kind == 'compile':
        part = compile_unit(tuple(case['slot']))
        return [(k, v[0]) for k, v in part.violations.items()]

    def bad(key, what):
        out.append((key, f'{what} | {case}'))

    try:
        if kind == 'function':
            scope = mk_scope(case['scope'])
            try:
                if case.get('positional'):
                    # REPRESENTATION: all arguments given positionally, in the documented field order
                    fn = G.Function(mk_type(case['ret']), case['name'], mk_params(case['params']), _prefix(G, case['prefix']),
                                    case['cav'], case['override'], case['init'], case['contents'], scope)
                else:
                    fn = G.Function(return_type=mk_type(case['ret']), name=case['name'], params=mk_params(case['params']),
                                    prefix=_prefix(G, case['prefix']), cav=case['cav'], override=case['override'],
                                    initialization=case['init'], contents=case['contents'], scope=scope)
            except G.CppGenError:
                # rejected: fine, but the well-formed core must never be rejected
                if not (case['prefix'] == 'VIRTUAL' and scope is None) and not \
                        (case['init'] == '0' and case['prefix'] != 'VIRTUAL'):
                    bad('function-rejected', 'CppGenError for an acceptable description')
                return out
            pre = {'MEMBER': [], 'VIRTUAL': ['virtual'], 'STATIC': ['static']}[case['prefix']]
            cav = [case['cav']] if case['cav'] else []
            decl_want = pre + type_tokens(case['ret']) + tokens(case['name']) + ['('] + param_tokens(case['params'], True) + \
                [')'] + cav + (['override'] if case['override'] else []) + \
                (['=', case['init']] if case['init'] else []) + [';']
            decl = fn.as_decl
            if tokens(decl) != decl_want or decl.count('\n') != 1 or not decl.endswith('\n'):
                bad('function-decl', f'{decl!r} tokens expected {decl_want}')
            sig = type_tokens(case['ret']) + ([scope.name, '::'] if scope else []) + tokens(case['name']) + ['('] + \
                param_tokens(case['params'], False) + [')'] + cav
            defn = fn.as_def
            if case['init']:
                if defn != '':
                    bad('function-def-despite-init', repr(defn))
            else:
                err = body_ok(defn, sig, case['contents'])
                if err:
                    bad('function-def', f'{err} | def={defn!r}')
            try:
                str(fn)
                bad('function-str-allowed', '')
            except G.CppGenError:
                pass
        elif kind == 'constructor':
            scope = mk_scope(case['scope'])
            try:
                if case.get('positional'):
                    ctor = G.Constructor(scope, case['explicit'], mk_params(case['params']), case['init'], list(case['mil']),
                                         case['contents'])
                else:
                    ctor = G.Constructor(scope, explicit=case['explicit'], params=mk_params(case['params']),
                                         initialization=case['init'], member_initlist=list(case['mil']),
                                         contents=case['contents'])
            except G.CppGenError:
                if not (case['init'] and case['mil']) and scope is not None:
                    bad('constructor-rejected', 'CppGenError for an acceptable description')
                return out
            if scope is None:
                bad('constructor-without-scope-accepted', '')
                return out
            decl_want = (['explicit'] if case['explicit'] else []) + [scope.name, '('] + \
                param_tokens(case['params'], True) + [')'] + (['=', case['init']] if case['init'] else []) + [';']
            if tokens(ctor.as_decl) != decl_want or ctor.as_decl.count('\n') != 1:
                bad('constructor-decl', f'{ctor.as_decl!r} expected {decl_want}')
            if case['init']:
                if ctor.as_def != '':
                    bad('constructor-def-despite-init', repr(ctor.as_def))
            else:
                sig = [scope.name, '::', scope.name, '('] + param_tokens(case['params'], False) + [')']
                mil = []
                for i, m in enumerate(case['mil']):
                    mil += [':' if i == 0 else ','] + tokens(m)
                defn = ctor.as_def
                if not case['mil']:
                    err = body_ok(defn, sig, case['contents'])
                else:
                    err = body_ok(defn, sig + mil, case['contents'] or None) if case['contents'] else \
                        (None if tokens(defn) == sig + mil + ['{', '}'] else f'tokens {tokens(defn)}')
                if err:
                    bad('constructor-def', f'{err} | def={defn!r}')
        elif kind == 'destructor':
            scope = mk_scope(case['scope'])
            try:
                if case.get('positional'):
                    dtor = G.Destructor(scope, case['override'], case['init'], case['contents'])
                else:
                    dtor = G.Destructor(scope, override=case['override'], initialization=case['init'],
                                        contents=case['contents'])
            except G.CppGenError:
                if scope is not None:
                    bad('destructor-rejected', '')
                return out
            if scope is None:
                bad('destructor-without-scope-accepted', '')
                return out
            decl_want = ['~', scope.name, '(', ')'] + (['override'] if case['override'] else []) + \
                (['=', case['init']] if case['init'] else []) + [';']
            if tokens(dtor.as_decl) != decl_want:
                bad('destructor-decl', f'{dtor.as_decl!r}')
            if case['init']:
                if dtor.as_def != '':
                    bad('destructor-def-despite-init', repr(dtor.as_def))
            else:
                err = body_ok(dtor.as_def, [scope.name, '::', '~', scope.name, '(', ')'], case['contents'])
                if err:
                    bad('destructor-def', f'{err} | def={dtor.as_def!r}')
        elif kind == 'namespace':
            from dznpy.scoping import NamespaceIds  # pylint: disable=import-outside-toplevel
            from dznpy.text_gen import TextBlock  # pylint: disable=import-outside-toplevel
            content = case['contents']
            nsp = G.Namespace(NamespaceIds(list(case['ids'])), TextBlock(list(content)) if content is not None else None)
            if case.get('set_later'):
                nsp = G.Namespace(NamespaceIds(list(case['ids'])))
                nsp.contents = TextBlock(list(content or []))
            text = str(nsp)
            name = '::'.join(case['ids'])
            head = f'namespace {name} {{' if name else 'namespace {'
            tail = f'}} // namespace {name}' if name else '} // namespace'
            lines = text.split('\n')
            if content:
                if lines != [head] + list(content) + [tail, '']:
                    bad('namespace', repr(text))
            else:
                if tokens(text) != tokens(head) + ['}'] or text.count('\n') != 1:
                    bad('namespace-empty', repr(text))
            if text.count('{') - sum(c.count('{') for c in content or []) != \
                    text.count('}') - sum(c.count('}') for c in content or []):
                bad('namespace-unbalanced', repr(text))
        elif kind == 'struct':
            from dznpy.text_gen import TextBlock  # pylint: disable=import-outside-toplevel
            content = case['contents']
            cls = G.Struct if case['which'] == 'struct' else G.Class
            obj = cls(case['name'], TextBlock(list(content)) if content is not None else None)
            if case.get('set_later'):
                obj = cls(case['name'])
                obj.contents = TextBlock(list(content or []))
            lines = str(obj).split('\n')
            want = [f'{case["which"]} {case["name"]}', '{'] + list(content or []) + ['};', '']
            if lines != want:
                bad('struct', f'{lines} expected {want}')
        elif kind == 'ctor-absent-params':
            # absent optional parameters (None entries) of a constructor are skipped: same text as without them, and
            # the caller's list is left alone
            struct = G.Struct('S')
            pattern = case['pattern']
            real = mk_params(PARAM_KINDS[:sum(1 for x in pattern if x)])
            it = iter(real)
            given = [next(it) if x else None for x in pattern]
            snapshot = list(given)
            ctor = G.Constructor(struct, params=given, explicit=case['explicit'], contents='x();')
            ref = G.Constructor(struct, params=list(real), explicit=case['explicit'], contents='x();')
            if (str(ctor.as_decl), str(ctor.as_def)) != (str(ref.as_decl), str(ref.as_def)):
                bad('absent-params-change-the-rendering', f'pattern={pattern}: {str(ctor.as_decl)!r} expected {str(ref.as_decl)!r}')
            if len(given) != len(snapshot) or any(a is not b for a, b in zip(given, snapshot)):
                bad('callers-param-list-changed', f'pattern={pattern}')
        elif kind == 'block-contents':
            # contents whose string form is more than their plain lines (a comment, a block with a header, an indented
            # block, blocks nested in blocks): a struct / class / namespace renders them UNCHANGED, i.e. as str(contents)
            from dznpy.scoping import NamespaceIds  # pylint: disable=import-outside-toplevel
            from dznpy.text_gen import TextBlock, Indentizer  # pylint: disable=import-outside-toplevel

            def mk_content(form):
                if form == 'comment':
                    return G.Comment(['first', '', 'third'])
                if form == 'header':
                    return TextBlock(['int x;', 'int y;'], header='public:')
                if form == 'indented':
                    return TextBlock(['int x;', '', 'int y;']).indent(Indentizer(spaces_count=2))
                if form == 'nested-header':
                    return TextBlock([TextBlock(['int x;'], header='private:'), G.Comment('note'), 'int z;'])
                if form == 'comment-with-header':
                    return G.Comment(['body'])
                if form == 'section':
                    return TextBlock([G.AccessSpecifiedSection(G.AccessSpecifier.PUBLIC, TextBlock(['int x;']))])
                return TextBlock(['int x;'])
            inner = mk_content(case['form'])
            inner_text = str(inner)
            what = case['what']
            if what == 'namespace':
                obj = G.Namespace(NamespaceIds(['N']), inner) if not case['later'] else G.Namespace(NamespaceIds(['N']))
                head, tail = 'namespace N {\n', '} // namespace N\n'
            else:
                cls = G.Struct if what == 'struct' else G.Class
                obj = cls('S', inner) if not case['later'] else cls('S')
                head, tail = f'{what} S\n{{\n', '};\n'
            if case['later']:
                obj.contents = inner
            text = str(obj)
            if text != head + inner_text + tail:
                bad('block-changes-its-contents', f'{what} with {case["form"]} contents: {text!r} expected '
                                                  f'{head + inner_text + tail!r}')
            if str(inner) != inner_text:
                bad('rendering-a-block-changes-the-contents-object', f'{what} {case["form"]}')
        elif kind == 'fill-later':
            # EMBEDDING: the natural order of use - the (still empty) contents block is handed to the owner first, because the
            # members need the owner as their scope, and is FILLED afterwards through the caller's own reference; what the owner
            # renders must be what a block built from the final contents renders
            from dznpy.scoping import NamespaceIds  # pylint: disable=import-outside-toplevel
            from dznpy.text_gen import TextBlock  # pylint: disable=import-outside-toplevel
            empty = {'none-arg': lambda: TextBlock(), 'empty-list': lambda: TextBlock([]), 'none': lambda: TextBlock(None),
                     'one-line': lambda: TextBlock(['int first;'])}[case['start']]
            mk = {'struct': lambda c: G.Struct('S', c), 'class': lambda c: G.Class('S', c),
                  'namespace': lambda c: G.Namespace(NamespaceIds(['N']), c)}[case['what']]
            mine = empty()
            owner = mk(mine)
            before = list(mine.lines)
            for step in case['steps']:
                if step == 'iadd':
                    mine += ['int a;', '', 'int b;']
                elif step == 'append':
                    mine.append('void f();')
                else:
                    mine.lines.append('int raw;')
            want = str(mk(TextBlock(list(mine.lines))))
            if str(owner) != want:
                bad('contents-filled-after-construction', f'{case}: contents object started as {before!r}, now holds '
                                                          f'{mine.lines!r}; the owner renders {str(owner)!r}, expected {want!r}')
        elif kind == 'section':
            from dznpy.text_gen import TextBlock  # pylint: disable=import-outside-toplevel
            spec = G.AccessSpecifier[case['spec']]
            sec = G.AccessSpecifiedSection(spec, TextBlock(list(case['contents'])))
            lines = str(sec).split('\n')
            head = [] if spec.value is None else [spec.value]
            want = head + [('    ' + c if c.strip() else '') for c in case['contents']] + ['']
            if lines != want and not (not head and not case['contents'] and lines == ['']):
                bad('section', f'{lines} expected {want}')
        elif kind == 'sharing':
            from dznpy.scoping import NamespaceIds  # pylint: disable=import-outside-toplevel
            makers = {'struct': lambda n: G.Struct(n), 'class': lambda n: G.Class(n),
                      'namespace': lambda n: G.Namespace(NamespaceIds([n]))}
            first = makers[case['first']]('A')
            if case['how'] == 'append':
                first.contents.append('int from_a;')
            else:
                blk = first.contents
                blk += 'int from_a;'
            second = makers[case['second']]('B')
            if 'from_a' in str(second) or second.contents.lines:
                bad('contents-shared-between-objects', f'second renders {str(second)!r}')
            second.contents.append('int from_b;')
            if 'from_b' in str(first):
                bad('contents-shared-between-objects', f'first renders {str(first)!r}')
            third = makers[case['first']]('C')
            if third.contents.lines:
                bad('contents-shared-between-objects', f'third renders {str(third)!r}')
        elif kind == 'rerender':
            # observe, change the description in place, observe again: every rendering must be the one a FRESH block
            # built from the current description gives (no rendering may survive a change, none may change the block)
            from dznpy.scoping import NamespaceIds  # pylint: disable=import-outside-toplevel
            what = case['what']
            if what in ('struct', 'class', 'namespace'):
                mk = {'struct': lambda n, c: G.Struct(n, c), 'class': lambda n, c: G.Class(n, c),
                      'namespace': lambda n, c: G.Namespace(NamespaceIds([n]), c)}[what]
                from dznpy.text_gen import TextBlock  # pylint: disable=import-outside-toplevel
                obj = mk('A', TextBlock(['int a;']))
                if str(obj) != str(obj) or str(obj) != str(mk('A', TextBlock(['int a;']))):
                    bad('rendering-not-repeatable', what)
                for step, line in enumerate(case['lines']):
                    obj.contents.append(line)
                    want = str(mk('A', TextBlock(['int a;'] + case['lines'][:step + 1])))
                    if str(obj) != want or str(obj) != want:
                        bad('stale-rendering-after-change', f'{what}: step {step}: {str(obj)!r} expected {want!r}')
                obj.contents = TextBlock(['int z;'])
                if str(obj) != str(mk('A', TextBlock(['int z;']))):
                    bad('stale-rendering-after-change', f'{what}: contents replaced: {str(obj)!r}')
            else:
                struct = G.Struct('S')

                def fresh(desc):
                    if what == 'function':
                        return G.Function(return_type=mk_type(desc['ret']), name=desc['name'], params=mk_params(desc['params']),
                                          cav=desc['cav'], contents=desc['contents'], override=desc['override'], scope=struct)
                    if what == 'constructor':
                        return G.Constructor(struct, params=mk_params(desc['params']), contents=desc['contents'],
                                             explicit=desc['explicit'])
                    return G.Destructor(struct, contents=desc['contents'], override=desc['override'])
                desc = {'ret': RET_TYPES[0], 'name': 'fn', 'params': [], 'cav': '', 'contents': '', 'explicit': False,
                        'override': False}
                obj = fresh(desc)
                for field_, value in case['changes']:
                    before = (obj.as_decl, obj.as_def, obj.as_decl, obj.as_def)
                    ref = fresh(desc)
                    if (str(before[0]), str(before[1])) != (str(ref.as_decl), str(ref.as_def)) or \
                            (str(before[2]), str(before[3])) != (str(ref.as_decl), str(ref.as_def)):
                        bad('rendering-not-repeatable', f'{what} {desc}')
                    if field_ == 'params':
                        desc = dict(desc, params=value)
                        if what == 'destructor':
                            continue
                        obj.params = mk_params(value)
                    elif field_ == 'params-append':
                        if what == 'destructor':
                            continue
                        nold = len(desc['params'])
                        desc = dict(desc, params=desc['params'] + value)
                        obj.params.extend(mk_params(desc['params'])[nold:])
                    else:
                        if not hasattr(obj, field_):
                            continue
                        desc = dict(desc, **{field_: value})
                        setattr(obj, field_, mk_type(value) if field_ == 'ret' else value)
                        if field_ == 'ret':
                            obj.return_type = mk_type(value)
                    ref = fresh(desc)
                    if (str(obj.as_decl), str(obj.as_def)) != (str(ref.as_decl), str(ref.as_def)):
                        bad('stale-rendering-after-change', f'{what}: after {field_}={value!r}: decl={str(obj.as_decl)!r} '
                                                             f'expected {str(ref.as_decl)!r}')
        elif kind == 'failed-render':
            # FAILURE PATHS: a block description holds an item that cannot be rendered as text (a Param / Function object,
            # whose __str__ raises CppGenError by design, or an object whose __str__ raises something else); the attempt
            # fails; the SAME list object is corrected in place and used again: every block built from it renders like one
            # built from an equal fresh list, and blocks that existed before are not affected
            import copy  # pylint: disable=import-outside-toplevel
            from dznpy.scoping import NamespaceIds  # pylint: disable=import-outside-toplevel
            from dznpy.text_gen import TextBlock  # pylint: disable=import-outside-toplevel

            class Boom(Exception):
                pass

            class Poison:  # pylint: disable=too-few-public-methods
                def __str__(self):
                    raise Boom('poisoned item')
            struct = G.Struct('Owner')
            culprit = {'param': lambda: G.Param(mk_type(RET_TYPES[1]), 'p'),
                       'function': lambda: G.Function(return_type=mk_type(RET_TYPES[0]), name='f', scope=struct),
                       'poison': Poison}[case['culprit']]()
            items = {'flat': ['int a;', culprit, 'int b;'], 'nested': ['int a;', ['x();', [culprit]], 'int b;'],
                     'dict': {'first': 'int a;', 'second': culprit, 'third': 'int b;'}, 'first': [culprit, 'int b;']}[case['shape']]
            mk = {'struct': lambda c: G.Struct('A', c), 'class': lambda c: G.Class('A', c),
                  'namespace': lambda c: G.Namespace(NamespaceIds(['A']), c),
                  'function': lambda c: G.Function(return_type=mk_type(RET_TYPES[0]), name='fn', scope=struct, contents=c),
                  'constructor': lambda c: G.Constructor(struct, contents=c),
                  'section': lambda c: G.AccessSpecifiedSection(G.AccessSpecifier.PUBLIC, c)}[case['what']]

            def render(obj):
                return (str(obj.as_decl), str(obj.as_def)) if case['what'] in ('function', 'constructor') else str(obj)
            bystander = mk(TextBlock(['int kept;']))
            bystander_before = render(bystander)
            failed = 0
            for _rep in range(case['attempts']):
                try:
                    render(mk(TextBlock(items)))
                except (G.CppGenError, Boom):
                    failed += 1
            if not failed:
                bad('unrenderable-item-accepted', f'{case}')
            # repair the same container objects in place

            def repair(obj):
                if isinstance(obj, list):
                    for i, x in enumerate(obj):
                        if x is culprit:
                            obj[i] = 'int fixed;'
                        else:
                            repair(x)
                elif isinstance(obj, dict):
                    for k, x in list(obj.items()):
                        if x is culprit:
                            obj[k] = 'int fixed;'
                        else:
                            repair(x)
            repair(items)
            got = render(mk(TextBlock(items)))
            want = render(mk(TextBlock(copy.deepcopy(items))))
            if got != want or 'fixed' not in ''.join(got):
                bad('block-from-repaired-list', f'{case}: {got!r} expected {want!r}')
            if render(bystander) != bystander_before:
                bad('failed-rendering-changed-another-block', f'{case}')
        elif kind == 'helpers':
            from dznpy.scoping import NamespaceIds  # pylint: disable=import-outside-toplevel
            ids, root, name, dflt = case['ids'], case['root'], case['name'], case['default']
            fq = G.fqn_t(list(ids), root)
            want_fq = (['::'] if root and ids else []) + [t for i, x in enumerate(ids) for t in ((['::'] if i else []) + [x])]
            if tokens(str(fq)) != want_fq:
                bad('fqn_t', f'{str(fq)!r}')
            for alt in ('.'.join(ids), '::'.join(ids), NamespaceIds(list(ids))):
                if ids and tokens(str(G.fqn_t(alt, root))) != want_fq:
                    bad('fqn_t-notation', f'{alt!r} -> {str(G.fqn_t(alt, root))!r}')
            for empty in (None, '', []):
                if str(G.fqn_t(empty, root)) != '':
                    bad('fqn_t-empty', repr(empty))
            for fn, txt in ((G.void_t, 'void'), (G.int_t, 'int'), (G.float_t, 'float'), (G.double_t, 'double')):
                if str(fn()) != txt:
                    bad('basic-type-helper', f'{txt}: {str(fn())!r}')
            if ids:
                for fn, post in ((G.decl_var_t, []), (G.decl_var_ref_t, ['&']), (G.decl_var_ptr_t, ['*'])):
                    if tokens(str(fn(fq, name))) != want_fq + post + [name, ';']:
                        bad('decl_var-helper', f'{fn.__name__}: {str(fn(fq, name))!r}')
                for fn, pre, post in ((G.param_t, [], []), (G.const_param_ref_t, ['const'], ['&']),
                                      (G.const_param_ptr_t, ['const'], ['*'])):
                    par = fn(fq, name, dflt) if dflt is not None else fn(fq, name)
                    want_def = pre + want_fq + post + [name]
                    want_decl = want_def + (['='] + tokens(dflt) if dflt else [])
                    if tokens(par.as_def) != want_def or tokens(par.as_decl) != want_decl:
                        bad('param-helper', f'{fn.__name__}: decl={par.as_decl!r} def={par.as_def!r}')
        elif kind == 'misc':
            from dznpy.scoping import NamespaceIds  # pylint: disable=import-outside-toplevel
            incs = list(case['includes'])
            for cls, open_, close in ((G.SystemIncludes, '<', '>'), (G.ProjectIncludes, '"', '"')):
                lines = str(cls(incs)).split('\n')
                if not lines[0].startswith('//') or lines[1:-1] != [f'#include {open_}{i}{close}' for i in incs]:
                    bad('includes', f'{lines}')
            all_types = [{'fqn': fq, 'root': root, 'targ': targ, 'post': post, 'const': const, 'default': dflt}
                         for fq in (['T'], ['N', 'T']) for root in (False, True) for targ in (None, ['A'], ['N', 'T'])
                         for post in ('', '&', '*') for const in (False, True)
                         for dflt in (None, '', '0', '{}', '""', 'nullptr')]
            for enc in RET_TYPES + PARAM_KINDS + all_types:
                mv = G.MemberVariable(mk_type(enc), 'm_x')
                if tokens(str(mv)) != type_tokens(enc) + ['m_x', ';']:
                    bad('member-variable', str(mv))
                par = G.Param(mk_type(enc), 'p')
                want_decl = type_tokens(enc) + ['p'] + (['='] + tokens(enc['default']) if enc.get('default') else [])
                if ' = ' in par.as_def or (not enc.get('default') and '=' in par.as_decl):
                    bad('param-spurious-initialiser', f'{par.as_decl!r} / {par.as_def!r}')
                if tokens(par.as_decl) != want_decl or tokens(par.as_def) != type_tokens(enc) + ['p']:
                    bad('param', f'{par.as_decl!r} / {par.as_def!r}')
                try:
                    str(par)
                    bad('param-str-allowed', '')
                except G.CppGenError:
                    pass
    except Exception as exc:  # pylint: disable=broad-except
        bad(f'exception:{type(exc).__name__}', repr(exc))
    return out


# ---- enumeration ---------------------------------------------------------------------------

FUNCTION_NAMES = ['fn', 'S', 'S2', 'xS', 'getS', 'S_', 'operator()', 'operator==', 'operator<<', 'operator[]', 'operator bool',
                  'operator S::Handle', 'operator ::S::Handle', 'operator Other::Handle', 'operator XS::Handle',
                  'Get<S::Mode>', 'Get<Other::Mode>', 'Get<int>', 'As<S>', 'operator S', 'operator const S::Handle&']

def param_lists():
    for n in range(0, 3):
        yield from (list(c) for c in itertools.product(PARAM_KINDS, repeat=n))


def function_cases():
    for ret, params, prefix, cav, override, init, contents, scope in itertools.product(
            RET_TYPES, list(param_lists()), ('MEMBER', 'VIRTUAL', 'STATIC'), ('', 'const'), (False, True), INITS,
            CONTENTS, (None, 'struct', 'class')):
        yield {'kind': 'function', 'ret': ret, 'name': 'fn', 'params': params, 'prefix': prefix, 'cav': cav,
               'override': override, 'init': init, 'contents': contents, 'scope': scope}
        if len(params) <= 1 and ret == RET_TYPES[0]:
            yield {'kind': 'function', 'ret': ret, 'name': 'fn', 'params': params, 'prefix': prefix, 'cav': cav,
                   'override': override, 'init': init, 'contents': contents, 'scope': scope, 'positional': True}


def other_cases():
    mils = [[], ['m_a(1)'], ['m_a(1)', 'm_b{a0}'], ['m_a(1)', 'm_b{2}', 'm_c("x")']]
    for explicit, params, init, mil, contents, scope in itertools.product(
            (False, True), list(param_lists()), ('', 'default', 'delete'), mils, CONTENTS, ('struct', 'class', None)):
        yield {'kind': 'constructor', 'explicit': explicit, 'params': params, 'init': init, 'mil': mil,
               'contents': contents, 'scope': scope}
        if len(params) <= 1:
            yield {'kind': 'constructor', 'explicit': explicit, 'params': params, 'init': init, 'mil': mil,
                   'contents': contents, 'scope': scope, 'positional': True}
    for override, init, contents, scope in itertools.product((False, True), ('', 'default', 'delete'), CONTENTS,
                                                             ('struct', 'class', None)):
        yield {'kind': 'destructor', 'override': override, 'init': init, 'contents': contents, 'scope': scope}
        yield {'kind': 'destructor', 'override': override, 'init': init, 'contents': contents, 'scope': scope, 'positional': True}
    bodies = [None, [], ['int x;'], ['struct Q', '{', '};', '', '    indented();'], ['', 'int after_blank;'], ['']]
    for n in range(0, 4):
        for ids in itertools.product(['A', 'b_1', 'C9'], repeat=n):
            for body in bodies:
                for later in (False, True):
                    yield {'kind': 'namespace', 'ids': list(ids), 'contents': body, 'set_later': later}
    for which, name, body, later in itertools.product(('struct', 'class'), ('S', 'My_Class9'), bodies, (False, True)):
        yield {'kind': 'struct', 'which': which, 'name': name, 'contents': body, 'set_later': later}
    for spec in ('PUBLIC', 'PROTECTED', 'PRIVATE', 'ANONYMOUS'):
        for body in ([], ['int x;'], ['a();', '', '  b();'], ['', 'after_blank();'], ['x;', '']):
            yield {'kind': 'section', 'spec': spec, 'contents': body}
    for incs in ([], ['string'], ['dzn/pump.hh', 'a/b.h', 'x']):
        yield {'kind': 'misc', 'includes': incs}
    for ids in ([], ['T'], ['N', 'T'], ['a', 'b_1', 'C9']):
        for root in (False, True):
            for name in ('x', 'm_value'):
                for dflt in (None, '', '0', '""', 'nullptr', '{}', '123u'):
                    yield {'kind': 'helpers', 'ids': ids, 'root': root, 'name': name, 'default': dflt}
    for first, second, how in itertools.product(('struct', 'class', 'namespace'), ('struct', 'class', 'namespace'),
                                                ('append', 'iadd')):
        yield {'kind': 'sharing', 'first': first, 'second': second, 'how': how}
    # NAMES of member functions: the name is free text - operators, conversion operators, template specialisations - and
    # may mention the owner (the scope is called S), other scopes, or contain the owner's name as a substring
    for name in FUNCTION_NAMES:
        for scope in (None, 'struct', 'class'):
            for ret in (RET_TYPES[0], RET_TYPES[2]) if not name.startswith('operator ') else ({'fqn': [], 'none': True},):
                for contents in ('', 'return;'):
                    for cav in ('', 'const'):
                        yield {'kind': 'function', 'ret': ret, 'name': name, 'params': PARAM_KINDS[:1] if 'Get' in name else [],
                               'prefix': 'MEMBER', 'cav': cav, 'override': False, 'init': '', 'contents': contents, 'scope': scope}
    # SIZE: parameter lists of 3..13 parameters (cycling through the parameter kinds, two rotations)
    for n in range(3, 14):
        for shift in (0, 3):
            params = [PARAM_KINDS[(i + shift) % len(PARAM_KINDS)] for i in range(n)]
            for scope in (None, 'struct'):
                for contents in ('', 'return;'):
                    yield {'kind': 'function', 'ret': RET_TYPES[0], 'name': 'fn', 'params': params, 'prefix': 'MEMBER',
                           'cav': 'const' if scope else '', 'override': False, 'init': '', 'contents': contents, 'scope': scope}
            yield {'kind': 'constructor', 'explicit': True, 'params': params, 'init': '', 'mil': ['m_a(1)'],
                   'contents': 'x();', 'scope': 'struct'}
    for n in range(0, 6):
        for pattern in itertools.product((True, False), repeat=n):
            for explicit in (False, True):
                yield {'kind': 'ctor-absent-params', 'pattern': list(pattern), 'explicit': explicit}
    for what, form, later in itertools.product(('struct', 'class', 'namespace'),
                                               ('plain', 'comment', 'header', 'indented', 'nested-header', 'section'), (False, True)):
        yield {'kind': 'block-contents', 'what': what, 'form': form, 'later': later}
    for what, start in itertools.product(('struct', 'class', 'namespace'), ('none-arg', 'empty-list', 'none', 'one-line')):
        for steps in (['iadd'], ['append'], ['lines-append'], ['iadd', 'append'], ['append', 'lines-append', 'iadd']):
            yield {'kind': 'fill-later', 'what': what, 'start': start, 'steps': steps}
    for what, culprit, shape, attempts in itertools.product(('struct', 'class', 'namespace', 'function', 'constructor', 'section'),
                                                        ('param', 'function', 'poison'), ('flat', 'nested', 'dict', 'first'), (1, 2)):
        yield {'kind': 'failed-render', 'what': what, 'culprit': culprit, 'shape': shape, 'attempts': attempts}
    for what in ('struct', 'class', 'namespace'):
        for lines in (['int b;'], ['int b;', '', 'int c;'], ['  indented();', 'x;']):
            yield {'kind': 'rerender', 'what': what, 'lines': lines}
    changes = [('name', 'other'), ('params', PARAM_KINDS[:1]), ('params-append', PARAM_KINDS[1:3]), ('cav', 'const'),
               ('contents', 'return;'), ('explicit', True), ('override', True), ('contents', ''), ('params', [])]
    for what in ('function', 'constructor', 'destructor'):
        for perm in itertools.permutations(range(len(changes)), 3):
            yield {'kind': 'rerender', 'what': what, 'changes': [changes[i] for i in perm]}


# ---- compile --------------------------------------------------------------------------------

PRELUDE = ('namespace N { struct T {}; }\nnamespace A { namespace b_1 {\n'
           'struct T {}; struct A {}; template <typename X> struct Tpl {};\n} }\n'
           'template <typename X> struct Tpl {};\n')


def meaningful(case):
    if case['kind'] != 'function':
        return False
    if case['override']:
        return False                      # needs a base class the building blocks cannot express
    if case['init'] == 'default':
        return False                      # only special members may be defaulted
    if case['init'] == '0' and case['prefix'] != 'VIRTUAL':
        return False
    if case['prefix'] == 'STATIC' and case['cav']:
        return False
    if case['scope'] is None and (case['cav'] or case['prefix'] != 'MEMBER'):
        return False
    seen_default = False
    for par in case['params']:
        if par.get('default'):
            seen_default = True
        elif seen_default:
            return False                  # C++: a defaulted parameter cannot be followed by a plain one
    return True


def compile_unit(job):
    """Compose the meaningful function descriptions of one slot into structs and syntax-check."""
    from dznpy import cpp_gen as G  # pylint: disable=import-outside-toplevel
    from dznpy.scoping import NamespaceIds  # pylint: disable=import-outside-toplevel
    from dznpy.text_gen import TextBlock  # pylint: disable=import-outside-toplevel
    idx, nslots, limit = job
    part = Partial()
    chunks = []
    nfun = 0
    group = []

    def flush():
        nonlocal group
        if not group:
            return
        sid = len(chunks)
        scoped = [c for c in group if c['scope'] is not None]
        free = [c for c in group if c['scope'] is None]
        struct = G.Struct(f'S{sid}')
        decls, defs = [], []
        for k, case in enumerate(scoped):
            fn = G.Function(return_type=mk_type(case['ret']), name=f'fn{k}', params=mk_params(case['params']),
                            prefix=_prefix(G, case['prefix']), cav=case['cav'], override=False,
                            initialization=case['init'], contents=case['contents'] or '', scope=struct)
            decls.append(fn.as_decl)
            defs.append(fn.as_def)
        ctor = G.Constructor(struct, explicit=True, params=mk_params(PARAM_KINDS[:2]),
                             member_initlist=['m_a(a0)', 'm_b{a1}'], contents='(void)m_a;')
        dtor = G.Destructor(struct, contents='int bye = 0;\n(void)bye;')
        struct.contents = TextBlock([G.AccessSpecifiedSection(G.AccessSpecifier.PUBLIC,
                                                              TextBlock([ctor.as_decl, dtor.as_decl] + decls)),
                                     G.AccessSpecifiedSection(G.AccessSpecifier.PRIVATE,
                                                              TextBlock([str(G.MemberVariable(mk_type(RET_TYPES[1]), 'm_a')),
                                                                         str(G.MemberVariable(mk_type(RET_TYPES[1]), 'm_b'))]))])
        free_txt = []
        for k, case in enumerate(free):
            fn = G.Function(return_type=mk_type(case['ret']), name=f'free{sid}_{k}', params=mk_params(case['params']),
                            initialization=case['init'], contents=case['contents'] or '')
            free_txt += [fn.as_decl, fn.as_def]
        nsp = G.Namespace(NamespaceIds(['A', 'b_1']),
                          TextBlock([str(struct), ctor.as_def, dtor.as_def] + defs + free_txt))
        chunks.append(str(nsp))
        group = []

    for k, case in enumerate(function_cases()):
        if k % nslots != idx or not meaningful(case):
            continue
        if case['ret']['post'] == '&' or (case['ret']['fqn'] != ['void'] and case['contents'] != ''):
            # bodies that must return a value: keep text-level only unless the body is empty
            if case['ret']['fqn'] != ['void'] and case['contents']:
                continue
        group.append(case)
        nfun += 1
        if len(group) == 12:
            flush()
        if limit and nfun >= limit:
            break
    flush()
    tmp = tempfile.mkdtemp(prefix='vf_c20_')
    try:
        src = os.path.join(tmp, 'unit.cc')
        with open(src, 'w', encoding='utf-8') as fh:
            fh.write(PRELUDE + '\n'.join(chunks))
        res = subprocess.run(['g++', '-std=c++17', '-fsyntax-only', '-w', src], capture_output=True, text=True,
                             timeout=600, check=False)
        part.evaluations += nfun
        part.states += nfun
        part.transitions += nfun
        part.nontrivial += nfun
        part.extra['compiled_functions'] = nfun
        part.extra['compiled_translation_units'] = 1
        part.outcome('compile:' + ('ok' if res.returncode == 0 else 'error'))
        if res.returncode != 0:
            first = [ln for ln in res.stderr.splitlines() if 'error' in ln][:3]
            part.violation('composition-does-not-compile', f'{first}', {'kind': 'compile', 'slot': [idx, nslots, limit]})
    finally:
        shutil.rmtree(tmp, ignore_errors=True)
    return part


def work(job):
    if job[0] == 'compile':
        return compile_unit(job[1:])
    kind, idx, nslots = job
    part = Partial()
    gen = function_cases() if kind == 'functions' else other_cases()
    for k, case in enumerate(gen):
        if k % nslots != idx:
            continue
        res = judge(case)
        part.evaluations += 1
        part.states += 1
        part.transitions += 1
        part.nontrivial += 1
        part.outcome(case['kind'] + (':violation' if res else ':ok'))
        for key, what in res:
            part.violation(key, what, case)
        if k % 9973 == 3:
            part.sample(case)
    return part


def explore(ctx):
    if shutil.which('g++') is None:
        raise HarnessError('g++ not found')
    jobs = [('functions', i, 32) for i in range(32)] + [('others', i, 4) for i in range(4)]
    ncomp = 16
    jobs += [('compile', i, ncomp, 0) for i in range(ncomp)]
    for part in pmap(work, jobs):
        ctx.merge(part)
    ctx.rule = ('full product of the description dimensions listed in the module docstring; every description is one '
                'state; token streams compared with an independent tokenizer; the semantically meaningful function '
                'descriptions are additionally composed into structs in a namespace and syntax-checked by g++ '
                '(all of them, 16 translation units)')
    ctx.bounds = {'params': 2, 'namespace_ids': 3}
    ctx.assumptions += ['combinations a C++ compiler cannot accept for reasons outside the building blocks (override '
                        'without a base class, = default on ordinary functions, static const) are checked at token '
                        'level only']
    ctx.min_outcomes = 4
