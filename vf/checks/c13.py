"""C13 - a build either returns a complete result or fails with a diagnosed error.

Space : every model/configuration point that differs from the base point in <= k dimensions
        (k=2 quick / 3 thorough; DESIGN 3.2) - each must build - x every single-fault variation of it:
        encapsulee unknown / an interface / extern / enum / foreign / ambiguous; port type missing /
        wrong kind / ambiguous; every C03 rejection class; multi-client port unknown / a requires port /
        an STS port, claim unknown / void / bool / subint reply / an out event, granting value not a
        field, release unknown; odd file names and suffixes.
Oracle: reference validity (modelgen.Facts + refmodels.portcfg + the multi-client rules of the
        statement). valid -> exactly <base><suffix>.hh/.cc + six <prefix_>Dzn_*.hh, all non-empty;
        invalid -> exception whose class is defined in a dznpy module, non-empty message;
        never a builtin exception, never a hang (10 s alarm), never a partial list.
"""
import copy
import signal

from ..core import Partial, pmap
from .. import modelgen as M
from .. import build as B
from ..refmodels import portcfg as R

PID = 'C13'

SUPPORT = ['StrictPort', 'ILog', 'MiscUtils', 'MetaHelpers', 'MultiClientSelector', 'MutexWrapped']


class Hang(BaseException):
    """Raised by the watchdog. A BaseException so that no `except Exception` on the way (the library's or the
    harness's own) can swallow it."""


def _alarm(_sig, _frm):
    raise Hang()


# The watchdog counts CPU time consumed by THIS process (ITIMER_PROF), not wall-clock time: a build that is merely
# starved by a loaded machine can never be mistaken for one that does not terminate. (A first version used
# signal.alarm(10): under heavy load one thorough run reported a hang for a 5 ms build - a false alarm of the
# harness, corrected here.)
HANG_CPU_SECONDS = 20


def attempt(model, cfg):
    """('OK', files) | ('LIBERR', cls, msg) | ('CRASH', cls, msg) | ('HANG',)"""
    old = signal.signal(signal.SIGPROF, _alarm)
    signal.setitimer(signal.ITIMER_PROF, HANG_CPU_SECONDS)
    try:
        files = B.build(model, cfg)
        return ('OK', files)
    except Hang:
        return ('HANG',)
    except Exception as exc:  # pylint: disable=broad-except
        kind = 'LIBERR' if B.is_library_error(exc) else 'CRASH'
        return (kind, type(exc).__name__, str(exc))
    finally:
        signal.setitimer(signal.ITIMER_PROF, 0)
        signal.signal(signal.SIGPROF, old)


def expected_names(model, cfg):
    base = model['file'].replace('\\', '/').rsplit('/', 1)[-1]
    base = base.rsplit('.', 1)[0] if '.' in base and not base.startswith('.') else base
    if base.startswith('.') and base.count('.') > 1:
        base = base.rsplit('.', 1)[0]
    shell = base + cfg.get('suffix', 'Shell')
    prefix = ('_'.join(cfg['prefix'].split('.')) + '_') if cfg.get('prefix') else ''
    return [shell + '.hh', shell + '.cc'] + [f'{prefix}Dzn_{s}.hh' for s in SUPPORT]


def reference_validity(model, cfg):
    """('VALID',) | ('INVALID', reason) | ('EITHER', reason)"""
    try:
        facts = M.Facts(model)
    except M.Unresolved as exc:
        return ('INVALID', f'model:{exc}')
    either = None
    prov = [p.name for p in facts.provides]
    req = [p.name for p in facts.requires]
    inj = [p.name for p in facts.injected]
    if str(cfg.get('fac', 'create')).startswith('RAW:'):
        return ('INVALID', 'origin:not-a-member')
    for side in ('provides', 'requires'):
        for sel in cfg[side]:
            if not isinstance(sel, str) and (len(sel) == 0 or '' in sel):
                return ('INVALID', 'ports:empty-selection')     # a name set is non-empty and holds names
    wp = R.resolve_side('provides', cfg['provides'][0], cfg['provides'][1], prov, ())
    wr = R.resolve_side('requires', cfg['requires'][0], cfg['requires'][1], req, inj)
    for w in (wp, wr):
        if w[0] == 'REJECT':
            return ('INVALID', f'ports:{w[1]}')
        if w[0] == 'EITHER':
            either = w[1]
    mc = cfg.get('mc')
    if mc:
        for key in ('port', 'claim', 'grant', 'release'):
            if not mc[key]:
                return ('INVALID', f'mc:empty-{key}')
        if mc['port'] not in prov:
            return ('INVALID', 'mc:port-not-a-provides-port')
        if wp[0] == 'ACCEPT' and wp[1].get(mc['port']) != 'MTS':
            return ('INVALID', 'mc:port-not-mts')
        port = facts.port(mc['port'])
        claim = [e for e in port.events if e.name == mc['claim']]
        if not claim:
            return ('INVALID', 'mc:claim-unknown')
        if claim[0].direction != 'in' or claim[0].reply[0] != 'enum':
            return ('INVALID', 'mc:claim-not-enum-in-event')
        if '.' in mc['grant']:
            either = 'qualified granting value'
        elif mc['grant'] not in claim[0].reply[2]:
            return ('INVALID', 'mc:grant-not-a-field')
        rel = [e for e in port.events if e.name == mc['release']]
        if not rel:
            return ('INVALID', 'mc:release-unknown')
        if rel[0].direction != 'in' or mc['release'] == mc['claim']:
            either = 'release is an out event / equals claim'
    # only MTS ports use formal types: an unresolved formal type on an STS port is not demanded
    for p in facts.provides + facts.requires:
        sem = (wp[1] if p.direction == 'provides' else wr[1]).get(p.name) if \
            (wp if p.direction == 'provides' else wr)[0] == 'ACCEPT' else None
        if facts.formals_unresolved(p):
            if sem == 'MTS':
                return ('INVALID', 'model:formal-type-unresolved')
            either = either or 'unresolved formal type on a non-MTS port'
    base = model['file'].replace('\\', '/').rsplit('/', 1)[-1]
    if not base or base.startswith('.') or not cfg.get('suffix', 'Shell'):
        either = either or 'degenerate file name / suffix'
    if either:
        return ('EITHER', either)
    return ('VALID',)


def judge(case):
    model, cfg = case['model'], case['cfg']
    want = reference_validity(model, cfg)
    got = attempt(model, cfg)
    desc = f'fault={case.get("fault")} point={case.get("point")} reference={want} library={got[:3] if got[0] != "OK" else "OK"}'
    out = []
    if got[0] == 'HANG':
        return [('hang', desc)]
    if got[0] == 'CRASH':
        return [(f'crash:{got[1]}:{case.get("fault", "valid")}', desc)]
    if got[0] == 'LIBERR':
        if not got[2].strip():
            out.append(('error-without-message', desc))
        if want[0] == 'VALID':
            out.append((f'valid-rejected:{case.get("fault", "valid")}', desc))
        return out
    files = got[1]
    names = [f[0] for f in files]
    if want[0] == 'INVALID':
        out.append((f'invalid-accepted:{case.get("fault")}', desc))
        return out
    if want[0] == 'VALID' or True:
        exp = expected_names(model, cfg)
        if want[0] == 'VALID' and names != exp:
            out.append(('wrong-file-set', f'{names} expected {exp} | {desc}'))
        if len(names) != 8 or len(set(names)) != 8:
            out.append(('incomplete-result', f'{names} | {desc}'))
        if any(not f[1].strip() for f in files):
            out.append(('empty-file', desc))
    return out


# ---------------------------------------------------------------------------------------------

def faults(model, cfg, facts):
    """Yield (fault name, model', cfg')."""
    def mod():
        return copy.deepcopy(model), copy.deepcopy(cfg)

    ns = list(facts.scope)
    # --- encapsulee
    m, c = mod()
    m['encapsulee'] = ns + ['Nope']
    yield 'enc-unknown', m, c
    m, c = mod()
    m['encapsulee'] = ['Comp'] if ns else ['N', 'Comp']
    yield 'enc-wrong-scope', m, c
    m, c = mod()
    m['encapsulee'] = []
    yield 'enc-empty-name', m, c
    m, c = mod()
    m['encapsulee'] = ns + ['Comp', 'Comp']
    yield 'enc-name-too-long', m, c
    m, c = mod()
    m['encapsulee'] = (ns + ['Comp'])[1:] if ns else ['Comp', 'p']
    yield 'enc-name-suffix-only', m, c
    itf = facts.ports[0].itf_fqn if facts.ports else None
    if itf:
        m, c = mod()
        m['encapsulee'] = list(itf)
        yield 'enc-is-interface', m, c
    m, c = mod()
    m['encapsulee'] = ['T1']
    yield 'enc-is-extern', m, c
    m, c = mod()
    m['doc'].append(['enum', 'GlobEnum', ['A']])
    m['encapsulee'] = ['GlobEnum']
    yield 'enc-is-enum', m, c
    m, c = mod()
    m['doc'].append(['subint', 'GlobInt', 0, 3])
    m['encapsulee'] = ['GlobInt']
    yield 'enc-is-subint', m, c
    m, c = mod()
    m['doc'].append(['foreign', 'Frgn', []])
    m['encapsulee'] = ['Frgn']
    yield 'enc-is-foreign', m, c
    m, c = mod()
    extra = [['enum', 'Comp', ['A']]]
    for ident in reversed(ns):
        extra = [['ns', [ident], extra]]
    m['doc'] += extra
    yield 'enc-ambiguous', m, c
    # --- port types
    if facts.ports:
        def set_port_type(mm, idx, ids):
            dec = [d for d in M.declarations(mm['doc']) if d.fqn == tuple(mm['encapsulee'])][0]
            dec.node[2][idx][1] = ids
        for idx in range(len(facts.ports)):
            m, c = mod()
            set_port_type(m, idx, ['Nope'])
            yield f'porttype-missing:{idx}', m, c
            m, c = mod()
            set_port_type(m, idx, ['T1'])
            yield f'porttype-is-extern:{idx}', m, c
        # ambiguous: a second interface with the written name, visible on the chain
        p0 = facts.ports[0]
        if len(p0.written) == 1 and len(p0.itf_fqn) >= 2:
            m, c = mod()
            m['doc'].append(['interface', p0.written[0], [], []])
            yield 'porttype-ambiguous', m, c
        m, c = mod()
        dup = copy.deepcopy([d for d in facts.decls if d.fqn == p0.itf_fqn][0].node)
        extra = [dup]
        for ident in reversed(p0.itf_fqn[:-1]):
            extra = [['ns', [ident], extra]]
        m['doc'] += extra
        yield 'porttype-declared-twice', m, c
    # --- port selections (C03 classes)
    prov = [p.name for p in facts.provides]
    req = [p.name for p in facts.requires]
    for side, names in (('provides', prov), ('requires', req)):
        variants = {
            'unknown': [['zz'], 'REMAINING'], 'unknown2': ['REMAINING', ['zz']],
            'all+rem': ['ALL', 'REMAINING'], 'all+all': ['ALL', 'ALL'], 'none+none': ['NONE', 'NONE'],
            'rem+rem': ['REMAINING', 'REMAINING'],
            'empty-set': [[], 'REMAINING'], 'empty-set2': ['REMAINING', []], 'empty-name': [[''], 'REMAINING'],
            # SIZE: long unknown names, with characters that cannot be part of a name at the end
            'unknown-long': [['heaterElementTemperatureControlLoop, led'], 'REMAINING'],
            'unknown-very-long': ['REMAINING', ['x' * 60 + '!', 'zz' * 100]],
        }
        if names:
            variants['empty-name+real'] = ['REMAINING', ['', names[0]]]
        if names:
            # other spellings of an assignment that gives every port of this side one semantics (valid ones
            # included: the reference decides) - explicit names, REMAINING next to NONE, REMAINING next to names
            variants['explicit-mts'] = ['NONE', list(names)]
            variants['explicit-sts'] = [list(names), 'NONE']
            variants['explicit-mts-reversed'] = ['NONE', list(reversed(names))]
            variants['rem-mts'] = ['NONE', 'REMAINING']
            variants['rem-sts'] = ['REMAINING', 'NONE']
            variants['first+rem-mts'] = ['NONE', names[:1]] if len(names) == 1 else [names[1:], 'REMAINING']
            variants['both'] = [names[:1], names[:1]]
            variants['all+set'] = ['ALL', names[:1]]
            variants['set+all'] = [names[:1], 'ALL']
            variants['otherside'] = [[(req if side == 'provides' else prov)[0]], 'REMAINING'] \
                if (req if side == 'provides' else prov) else ['NONE', 'NONE']
        if len(names) >= 2:
            variants['uncovered'] = [names[:1], 'NONE']
            variants['uncovered2'] = ['NONE', names[1:]]
            variants['split'] = [names[:1], names[1:]]
            variants['split-rem'] = [names[:1], 'REMAINING']
        for name, sel in variants.items():
            m, c = mod()
            c[side] = sel
            yield f'{side}-sel:{name}', m, c
            if name.startswith(('explicit', 'first+rem', 'split', 'unknown', 'both')):
                # REPRESENTATION: the same selection with its names as instances of a str subclass (Enum-like)
                m, c = mod()
                c[side] = sel
                c['names_form'] = 'subclass'
                yield f'{side}-sel:{name}:str-subclass', m, c
    # --- multi client
    if cfg.get('mc'):
        for name, key, val in (('mc-port-unknown', 'port', 'zz'), ('mc-port-empty', 'port', ''),
                               ('mc-claim-unknown', 'claim', 'Zz'), ('mc-claim-void', 'claim', 'Other'),
                               ('mc-claim-bool', 'claim', 'Other2'), ('mc-claim-out', 'claim', 'Evt0'),
                               ('mc-claim-out-args', 'claim', 'Evt'), ('mc-claim-empty', 'claim', ''),
                               ('mc-grant-unknown', 'grant', 'Nope'), ('mc-grant-qualified', 'grant', 'Res.Ok'),
                               ('mc-grant-lower', 'grant', 'ok'),
                               ('mc-release-unknown', 'release', 'Zz'), ('mc-release-empty', 'release', ''),
                               ('mc-release-out', 'release', 'Evt0'), ('mc-release-is-claim', 'release', cfg['mc']['claim'])):
            m, c = mod()
            c['mc'][key] = val
            yield name, m, c
        if req:
            m, c = mod()
            c['mc']['port'] = req[0]
            yield 'mc-port-is-requires', m, c
        m, c = mod()
        c['provides'] = ['ALL', 'NONE']
        yield 'mc-port-sts', m, c
        if len(prov) >= 2:
            other = [p for p in prov if p != cfg['mc']['port']][0]
            m, c = mod()
            c['mc']['port'] = other      # a provides port whose interface lacks the claim event
            yield 'mc-port-other-interface', m, c
        # claim replying a subint
        m, c = mod()
        dec = [d for d in M.declarations(m['doc']) if d.kind == 'interface' and d.node[1].startswith('IMc')][0]
        dec.node[3].append(['IntEv', 'in', ['Cnt'], []])
        c['mc']['claim'] = 'IntEv'
        yield 'mc-claim-subint', m, c
    else:
        if prov:
            m, c = mod()
            c['mc'] = {'port': prov[0], 'claim': 'EnumRet', 'grant': 'Ok', 'release': 'V0'}
            yield 'mc-on-plain-interface', m, c     # valid iff port is MTS and the events exist
            m, c = mod()
            c['mc'] = {'port': prov[0], 'claim': 'EnumRet', 'grant': 'Ok', 'release': 'V0'}
            c['provides'] = ['ALL', 'NONE']
            yield 'mc-on-sts-port', m, c
    # --- the unchanged configuration with all names (selections, multi-client settings) as str-subclass instances
    m, c = mod()
    c['names_form'] = 'subclass'
    yield 'names-as-str-subclass', m, c
    # --- EXTENSION (valid): the encapsulee name as an instance of a user's subclass of NamespaceIds; the selections as instances
    #     of a user's subclass of PortSelect
    m, c = mod()
    c['enc_form'] = 'subclass'
    yield 'enc-name-as-namespaceids-subclass', m, c
    m, c = mod()
    c['names_form'] = 'selsubclass'
    yield 'selections-as-portselect-subclass', m, c
    # --- facilities origin that is not a member of the enumeration
    for raw in ('RAW:None', 'RAW:str', 'RAW:value', 'RAW:int', 'RAW:other-enum-create', 'RAW:other-enum-import'):
        m, c = mod()
        c['fac'] = raw
        yield f'origin-invalid:{raw[4:]}', m, c
    # --- SIZE (valid): the whole model 12 / 24 / 40 namespace levels deeper (one identifier per level)
    for depth in (12, 24, 40):
        m, c = mod()
        levels = [f'L{i}' for i in range(depth)]
        doc = m['doc']
        for ident in reversed(levels):
            doc = [['ns', [ident], doc]]
        m['doc'] = doc
        m['encapsulee'] = levels + list(m['encapsulee'])
        if reference_validity(m, c) == ('VALID',):
            yield f'nested-{depth}-levels-deeper', m, c
    # --- file names / suffix
    for name, fname, suffix in (('file-empty', '', 'Shell'), ('suffix-empty', model['file'], ''),
                                ('file-noext', 'Mod', 'Shell'), ('file-dots', 'a.b/My.Model.dzn', 'X'),
                                ('file-hidden', '.dzn', 'Shell')):
        m, c = mod()
        m['file'] = fname
        c['suffix'] = suffix
        yield name, m, c


_HUNG = set()


def work(job):
    idx, nslots, k = job
    part = Partial()
    # the deviation-bounded neighbourhood of the base point + the cross products and corner points of the lab
    every = [pt for pt, _combo in M.points(k)]
    seen = {M.point_id(pt) for pt in every}
    every += [pt for pt in M.extra_points(1) if M.point_id(pt) not in seen]
    for n, pt in enumerate(every):
        if n % nslots != idx:
            continue
        model, cfg = M.build_model(pt)
        facts = M.Facts(model)
        pid = M.point_id(pt)
        cases = [{'model': model, 'cfg': cfg, 'fault': 'valid', 'point': pid}]
        for name, m2, c2 in faults(model, cfg, facts):
            cases.append({'model': m2, 'cfg': c2, 'fault': name, 'point': pid})
        for case in cases:
            if case['fault'] in _HUNG:
                continue        # this fault already made a build hang in this worker: reported once, not 2000 times
            res = judge(case)
            if any(k == 'hang' or k.startswith('hang') for k, _w in res):
                _HUNG.add(case['fault'])
            want = reference_validity(case['model'], case['cfg'])
            part.evaluations += 1
            part.states += 1
            part.transitions += 1
            part.outcome(f'{want[0]}:{(want[1].split(":")[0] + ":" + want[1].split(":")[1][:24]) if len(want) > 1 and ":" in want[1] else ""}')
            if want[0] != 'EITHER':
                part.nontrivial += 1
            for key, what in res:
                part.violation(key, what, case)
        if n % 37 == 0:
            part.sample({'point': pid, 'faults': [c['fault'] for c in cases]})
    return part


def explore(ctx):
    k = 3 if ctx.thorough else 2
    for part in pmap(work, [(i, 32, k) for i in range(32)]):
        ctx.merge(part)
    ctx.rule = (f'every model/configuration point within {k} deviations of the base point (valid, must build) x '
                'every applicable single fault of the catalogue in vf/checks/c13.py; reference validity from '
                'independent lookup/configuration/multi-client rules; non-trivial = reference is VALID or INVALID')
    ctx.bounds = {'deviations': k}
    ctx.assumptions += ['EITHER: everything C03 leaves open; release event that is an out event or equals the claim '
                        'event; qualified granting value; unresolved formal types on ports that are not MTS; empty or '
                        'dot-only file names and empty suffix',
                        'event formals whose type resolves to a non-extern declaration are outside the well-formed '
                        'domain and are judged by C07 only']
    ctx.min_outcomes = 6
