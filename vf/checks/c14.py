"""C14 - name lookup returns exactly the declarations on the scope chain.

Space : identifiers {a,b,ab}; the 39 FQNs of length <=3. Declaration sets = the full set (every FQN
        declared, kinds cycling over the 7 searched containers) + every set of <=1 (quick) / <=2
        (thorough, incl. one FQN declared under two kinds) declarations, built by adding one
        declaration at a time; x every searched name (39) x every calling scope (None + 40).
        Identifier strings: all strings of length <=3 / <=4 over {a,Z,_,0,'.',':',' ','\\n','e-acute','-'}
        and every id list of length <=3 in list / dotted / '::' notation.
Oracle: set comprehension over the scope chain, written here, independent of dznpy.
"""
import itertools

from ..core import Partial, pmap

PID = 'C14'
IDS = ['a', 'b', 'ab']     # 'ab' has 'a' as a proper STRING prefix: dotted-string shortcuts must not confuse them
FQNS = [list(t) for n in (1, 2, 3) for t in itertools.product(IDS, repeat=n)]
SCOPES = [None] + [list(t) for n in (0, 1, 2, 3) for t in itertools.product(IDS, repeat=n)]
KINDS = ['component', 'enum', 'extern', 'foreign', 'interface', 'subint', 'system']
STR_ALPHABET = ['a', 'Z', '_', '0', '.', ':', ' ', '\n', 'é', '-']


def valid_id(s):
    if not isinstance(s, str) or s == '':
        return False
    first = 'abcdefghijklmnopqrstuvwxyzABCDEFGHIJKLMNOPQRSTUVWXYZ_'
    return s[0] in first and all(c in first + '0123456789' for c in s[1:])


def mk_decl(fqn, kind):
    from dznpy import ast as A  # pylint: disable=import-outside-toplevel
    from dznpy.scoping import NamespaceIds, NamespaceTree  # pylint: disable=import-outside-toplevel
    tree = NamespaceTree()
    for ident in fqn[:-1]:
        tree = NamespaceTree(tree, NamespaceIds([ident]))
    common = {'fqn': NamespaceIds(list(fqn)), 'parent_ns': tree,
              'name': A.ScopeName(NamespaceIds([fqn[-1]]))}
    if kind == 'component':
        return A.Component(ports=A.Ports(), **common)
    if kind == 'foreign':
        return A.Foreign(ports=A.Ports(), **common)
    if kind == 'system':
        return A.System(ports=A.Ports(), instances=A.Instances(), bindings=A.Bindings(), **common)
    if kind == 'enum':
        return A.Enum(fields=A.Fields(['X']), **common)
    if kind == 'extern':
        return A.Extern(value=A.Data('int'), **common)
    if kind == 'subint':
        return A.SubInt(range=A.Range(0, 1), **common)
    if kind == 'interface':
        return A.Interface(ns_trail=NamespaceTree(tree, NamespaceIds([fqn[-1]])), types=A.Types(),
                           events=A.Events(), **common)
    raise ValueError(kind)


def mk_fct(decls):
    """decls: list of [fqn, kind]"""
    from dznpy import ast as A  # pylint: disable=import-outside-toplevel
    fct = A.FileContents()
    objs = []
    for fqn, kind in decls:
        obj = mk_decl(fqn, kind)
        getattr(fct, kind + 's').append(obj)
        objs.append((tuple(fqn), kind, obj))
    for ident in IDS:   # things that must never be returned
        fct.imports.append(A.Import(ident))
        fct.filenames.append(A.Filename(ident))
        fct.imports.append(A.Import(ident + '.dzn'))
    return fct, objs


def judge(case, stats=None):
    from dznpy import ast_view, scoping  # pylint: disable=import-outside-toplevel
    from dznpy.scoping import NamespaceIds  # pylint: disable=import-outside-toplevel
    out = []
    if case.get('kind') == 'string':
        return judge_string(case)

    class IdsSub(NamespaceIds):  # pylint: disable=too-few-public-methods
        """a user-defined subclass (e.g. one that adds helper methods)"""

    if case.get('kind') == 'idlist':
        return judge_idlist(case)
    decls = case['decls']
    queries = case.get('queries')
    fct, objs = mk_fct(decls)
    if queries is None:
        queries = [(n, s) for n in FQNS for s in SCOPES]
    for name, scope in queries:
        def bad(key, what):
            out.append((key, f'{what} | name={name} scope={scope} decls={decls if len(decls) < 4 else "FULL"}'))
        try:
            chain = [tuple(scope[:k]) + tuple(name) for k in range(len(scope or []), -1, -1)] \
                if scope else [tuple(name)]
            want = sorted(id(o) for f, _k, o in objs if f in chain)
            if stats is not None and want:
                stats['hits'] = stats.get('hits', 0) + 1
            # REPRESENTATION: the arguments as instances of a user-defined SUBCLASS of NamespaceIds (accepted wherever a
            # NamespaceIds is): same hits, same candidates, candidates equal to the plain FQNs of the same identifiers
            for form, scope_cls, name_cls in (('', NamespaceIds, NamespaceIds), (':scope-subclass', IdsSub, NamespaceIds),
                                              (':name-subclass', NamespaceIds, IdsSub), (':both-subclass', IdsSub, IdsSub)):
                if form and scope is None and scope_cls is IdsSub:
                    continue
                scope_obj = scope_cls(list(scope)) if scope is not None else None
                name_obj = name_cls(list(name))
                res = ast_view.find_fqn(fct, name_obj, scope_obj)
                got = sorted(id(o) for o in res.items)
                if got != want:
                    bad('find_fqn' + form, f'got {[str(o.fqn) for o in res.items]} '
                                    f'want {[".".join(f) for f, _k, o in objs if f in chain]}')
                if name_obj.items != list(name) or (scope_obj is not None and scope_obj.items != list(scope)):
                    bad('find_fqn-mutated-args', f'name={name_obj.items} scope={scope_obj}')
                # resolution order
                scope_obj = scope_cls(list(scope)) if scope is not None else None
                order = scoping.scope_resolution_order(name_cls(list(name)), scope_obj)
                if [tuple(x.items) for x in order] != chain:
                    bad('resolution-order' + form, f'got {[str(x) for x in order]} want {chain}')
                if scope_obj is not None and scope_obj.items != list(scope):
                    bad('resolution-order-mutated-scope', f'scope now {scope_obj.items}')
                if any(x != NamespaceIds(list(x.items)) or NamespaceIds(list(x.items)) != x for x in order):
                    bad('resolution-order-candidates-unequal-to-plain-fqn' + form, f'{[type(x).__name__ for x in order]}')
                if any(x is scope_obj for x in order):
                    bad('resolution-order-aliases-scope', '')
                if len(order) > 1:
                    snap = [list(x.items) for x in order]
                    order[0].items.append('zz')
                    if [list(x.items) for x in order[1:]] != snap[1:]:
                        bad('resolution-order-elements-alias-each-other', '')
            # suffix search (scope irrelevant): only once per name
            if scope is None:
                res = ast_view.find_any(fct, NamespaceIds(list(name)))
                want = sorted(id(o) for f, _k, o in objs if f[-len(name):] == tuple(name))
                if sorted(id(o) for o in res.items) != want:
                    bad('find_any', f'got {[str(o.fqn) for o in res.items]}')
        except Exception as exc:  # pylint: disable=broad-except
            bad(f'exception:{type(exc).__name__}', repr(exc))
    return out


def judge_string(case):
    from dznpy.scoping import namespaceids_t, NamespaceIdsTypeError  # pylint: disable=import-outside-toplevel
    s = case['s']
    out = []
    # which id lists does s denote (independent of the library)?
    denotes = None
    if s == '':
        denotes = []
    else:
        for cand in (s.split('.'), s.split('::'), [s]):
            if all(valid_id(x) for x in cand):
                denotes = cand
                break
    try:
        res = namespaceids_t(s)
    except NamespaceIdsTypeError:
        if denotes is not None:
            out.append(('string-rejected', f'{s!r} denotes {denotes} but was rejected'))
        return out
    except Exception as exc:  # pylint: disable=broad-except
        out.append((f'string-exception:{type(exc).__name__}', f'{s!r}: {exc!r}'))
        return out
    items = res.items
    if not isinstance(items, list) or not all(valid_id(x) for x in items):
        out.append(('invalid-identifier-handed-out', f'{s!r} -> {items!r}'))
    elif denotes is None or items != denotes:
        out.append(('string-conversion', f'{s!r} -> {items!r}, denotes {denotes!r}'))
    return out


def judge_idlist(case):
    from dznpy import scoping  # pylint: disable=import-outside-toplevel
    from dznpy.scoping import NamespaceIds, NamespaceTree, namespaceids_t  # pylint: disable=import-outside-toplevel
    from dznpy.cpp_gen import fqn_t  # pylint: disable=import-outside-toplevel
    ids = case['ids']
    out = []

    def bad(key, what):
        out.append((key, f'{what} | ids={ids}'))

    try:
        src = list(ids)
        obj = namespaceids_t(src)
        if obj.items != ids:
            bad('list-notation', f'{obj.items}')
        if ids:
            if namespaceids_t('.'.join(ids)).items != ids:
                bad('dotted-notation', str(namespaceids_t('.'.join(ids)).items))
            if namespaceids_t('::'.join(ids)).items != ids:
                bad('colon-notation', str(namespaceids_t('::'.join(ids)).items))
            if str(fqn_t(list(ids))) != '::'.join(ids) or str(fqn_t(list(ids), True)) != '::' + '::'.join(ids):
                bad('fqn-str', str(fqn_t(list(ids))))
        else:
            if namespaceids_t('').items != []:
                bad('empty-notation', '')
        if str(NamespaceIds(list(ids))) != '.'.join(ids):
            bad('str-dotted', str(NamespaceIds(list(ids))))
        if namespaceids_t(obj) is not obj and namespaceids_t(obj).items != ids:
            bad('passthrough', '')
        if scoping.ns_ids_t(list(ids)).items != ids:
            bad('alias-fn', '')
        # every notation hands out a FRESH value: changing a value obtained from a notation in place must not change
        # what the same notation yields the next time
        makers = [('list', lambda: namespaceids_t(list(ids))), ('NamespaceIds', lambda: NamespaceIds(list(ids))),
                  ('alias-fn', lambda: scoping.ns_ids_t(list(ids))),
                  ('dotted', lambda: namespaceids_t('.'.join(ids))), ('colon', lambda: namespaceids_t('::'.join(ids))),
                  ('alias-fn-dotted', lambda: scoping.ns_ids_t('.'.join(ids)))]
        if not ids:
            makers += [('none', lambda: namespaceids_t(None)), ('empty-tree', lambda: NamespaceTree().fqn)]
        # REPRESENTATION: identifiers that are instances of a str subclass with its own __str__ (Enum-like members)
        from ..build import StrSub  # pylint: disable=import-outside-toplevel
        for label, make in (('list-of-str-subclass', lambda: namespaceids_t([StrSub(i) for i in ids])),
                            ('NamespaceIds-of-str-subclass', lambda: NamespaceIds([StrSub(i) for i in ids])),
                            ('tuple-free-generator', lambda: NamespaceIds(list(StrSub(i) for i in ids)))):
            try:
                val = make()
            except Exception as exc:  # pylint: disable=broad-except
                bad(f'str-subclass-identifiers-rejected:{type(exc).__name__}', f'{label}: {exc!r}')
                continue
            if list(val.items) != ids or not all(valid_id(str.__str__(x)) for x in val.items) or \
                    any(type(x) is str and x != y for x, y in zip(val.items, ids)) or str(val) != '.'.join(ids):
                bad('str-subclass-identifiers-changed', f'{label}: items={[str.__str__(x) for x in val.items]} str={str(val)!r}')
            if ids and (val + NamespaceIds(['q'])).items != ids + ['q']:
                bad('str-subclass-identifiers-changed', f'{label}: + gives {(val + NamespaceIds(["q"])).items}')
        for label, make in makers:
            try:
                first = make()
            except Exception:  # pylint: disable=broad-except
                continue
            if first is None:
                continue
            first += NamespaceIds(['zz'])
            first.items.append('yy')
            again = make()
            if again.items != ids:
                bad('notation-hands-out-a-shared-value', f'{label}: after changing the first value in place the notation yields {again.items}')
        # operators: every split of ids into left + right
        for cut in range(len(ids) + 1):
            left, right = NamespaceIds(ids[:cut]), NamespaceIds(ids[cut:])
            both = left + right
            if both.items != ids or left.items != ids[:cut] or right.items != ids[cut:]:
                bad('add', f'cut={cut} -> {both.items} left={left.items} right={right.items}')
            if both is left or both is right or both.items is left.items or both.items is right.items:
                if ids:
                    bad('add-aliases', f'cut={cut}')
            extended = left + right
            extended += NamespaceIds(['zz'])
            if left.items != ids[:cut] or right.items != ids[cut:] or extended.items != ids + ['zz']:
                bad('add-result-shares-list-with-operand', f'cut={cut} left={left.items} right={right.items}')
            acc = NamespaceIds(ids[:cut])
            acc += right
            if acc.items != ids or right.items != ids[cut:]:
                bad('iadd', f'cut={cut} -> {acc.items}')
            # every view of a value is consistent with its items at every moment: observe, change in place
            # (+=, items surgery on a deep copy and on the value itself), observe again
            import copy as _copy  # pylint: disable=import-outside-toplevel

            def views_ok(val, label):
                want = list(val.items)
                seen = (str(val), namespaceids_t(str(val)).items if want else want, str(fqn_t(val)) if want else '',
                        val == NamespaceIds(list(want)), hash(str(val)) == hash('.'.join(want)))
                if seen != ('.'.join(want), want, '::'.join(want), True, True):
                    bad(f'views-inconsistent-{label}', f'cut={cut} items={want} views={seen}')
                    return False
                return True
            obs = NamespaceIds(ids[:cut])
            if views_ok(obs, 'fresh'):
                obs += right
                views_ok(obs, 'after-iadd')
                obs += NamespaceIds(['q'])
                views_ok(obs, 'after-second-iadd')
                dup = _copy.deepcopy(obs)
                dup.items.pop()
                views_ok(dup, 'deepcopy-after-pop')
                views_ok(obs, 'original-after-copy-changed')
                shallow = _copy.copy(obs)
                views_ok(shallow, 'copy')
                tot2 = obs + left
                views_ok(tot2, 'after-add')
                views_ok(obs, 'operand-after-add')
            tot = scoping.sum_namespaceids_items([left, right])
            if tot.items != ids or left.items != ids[:cut] or right.items != ids[cut:]:
                bad('sum', f'cut={cut} -> {tot.items} left={left.items}')
            # namespace tree with multi-id scope names
            tree = NamespaceTree()
            if ids[:cut]:
                tree = NamespaceTree(tree, NamespaceIds(ids[:cut]))
            if ids[cut:]:
                tree = NamespaceTree(tree, NamespaceIds(ids[cut:]))
            first = tree.fqn.items
            second = tree.fqn.items
            if first != ids or second != ids:
                bad('tree-fqn', f'cut={cut} -> {first} then {second}')
            member = NamespaceIds(['m'])
            mfq = tree.fqn_member_name(member)
            if mfq.items != ids + ['m'] or member.items != ['m'] or tree.fqn.items != ids:
                bad('tree-member', f'cut={cut} -> {mfq.items}')
            if str(tree) != '.'.join(ids):
                bad('tree-str', str(tree))
            # three levels
            for cut2 in range(cut, len(ids) + 1):
                tree3 = NamespaceTree()
                for part in (ids[:cut], ids[cut:cut2], ids[cut2:]):
                    if part:
                        tree3 = NamespaceTree(tree3, NamespaceIds(list(part)))
                if tree3.fqn.items != ids or tree3.fqn_member_name(NamespaceIds(['m', 'n'])).items != ids + ['m', 'n']:
                    bad('tree-fqn-3-levels', f'cuts={cut},{cut2} -> {tree3.fqn.items}')
        # deeper trees: every way of cutting the identifier list into consecutive levels (only run for the long
        # lists of the 'deeptrees' family; for <= 3 identifiers the code above has done it already)
        if len(ids) > 3:
            for mask in range(1 << (len(ids) - 1)):
                levels, cur = [], [ids[0]]
                for i in range(1, len(ids)):
                    if mask >> (i - 1) & 1:
                        levels.append(cur)
                        cur = []
                    cur.append(ids[i])
                levels.append(cur)
                tree_n = NamespaceTree()
                chain = []
                for part in levels:
                    tree_n = NamespaceTree(tree_n, NamespaceIds(list(part)))
                    chain.append(tree_n)
                want = []
                for part, node in zip(levels, chain):
                    want = want + part
                    if node.fqn.items != want:
                        bad(f'tree-fqn-{len(levels)}-levels', f'levels={levels}: node {part} has fqn {node.fqn.items}')
                        break
                if tree_n.fqn_member_name(NamespaceIds(['m'])).items != ids + ['m'] or str(tree_n) != '.'.join(ids):
                    bad(f'tree-member-{len(levels)}-levels', f'levels={levels}')
    except Exception as exc:  # pylint: disable=broad-except
        bad(f'exception:{type(exc).__name__}', repr(exc))
    return out


def work(job):
    part = Partial()
    kind = job[0]
    if kind == 'decls':
        for decls in job[1]:
            case = {'decls': decls}
            stats = {}
            res = judge(case, stats)
            nq = len(FQNS) * len(SCOPES)
            part.evaluations += nq
            part.transitions += 1
            part.states += 1
            part.nontrivial += stats.get('hits', 0)   # queries whose expected result is non-empty
            part.outcome(f'decls={min(len(decls), 3)}')
            for key, what in res:
                # shrink the replay case to the failing query
                part.violation(key, what, case if len(decls) < 4 else {'decls': decls})
            if len(decls) in (1, 2) and part.states % 97 == 1:
                part.sample({'decls': decls, 'queries': 'all 39 names x 41 scopes'})
    elif kind == 'strings':
        idx, nslots, maxlen = job[1]
        k = 0
        for n in range(0, maxlen + 1):
            for combo in itertools.product(STR_ALPHABET, repeat=n):
                k += 1
                if k % nslots != idx:
                    continue
                case = {'kind': 'string', 's': ''.join(combo)}
                res = judge(case)
                part.evaluations += 1
                part.transitions += 1
                part.states += 1
                part.nontrivial += 1 if n else 0
                part.outcome('string:' + ('violation' if res else 'ok'))
                for key, what in res:
                    part.violation(key, what, case)
                if k % 1999 == 1:
                    part.sample(case)
    elif kind == 'tokens':
        # strings built from whole identifiers and delimiters (mixed notations such as a.b::c need 5 tokens)
        toks = ['a', 'Z9', '_x', '.', '::', ':', ' ']
        idx, nslots, maxtok = job[1]
        k = 0
        for n in range(1, maxtok + 1):
            for combo in itertools.product(toks, repeat=n):
                k += 1
                if k % nslots != idx:
                    continue
                case = {'kind': 'string', 's': ''.join(combo)}
                res = judge(case)
                part.evaluations += 1
                part.transitions += 1
                part.states += 1
                part.nontrivial += 1
                part.outcome('string:' + ('violation' if res else 'ok'))
                for key, what in res:
                    part.violation(key, what, case)
    elif kind == 'charprobes':
        # every ASCII character (and a few others) at the first, middle and last position of an identifier,
        # alone and as one element of a dotted / '::' name
        chars = [chr(i) for i in range(0, 128)] + ['\x85', '\xa0', 'é', 'ß', '\u2028', '\uff21', '٣']
        for ch in chars:
            for s_ in (ch, ch + 'x', 'x' + ch, 'x' + ch + 'y', 'a.' + 'x' + ch, 'x' + ch + '::b', ch * 2):
                case = {'kind': 'string', 's': s_}
                res = judge(case)
                part.evaluations += 1
                part.transitions += 1
                part.states += 1
                part.nontrivial += 1
                part.outcome('string:' + ('violation' if res else 'ok'))
                for key, what in res:
                    part.violation(key, what, case)
        # the same through the list notation and the dataclass constructor
        from dznpy.scoping import NamespaceIds, NamespaceIdsTypeError, namespaceids_t  # pylint: disable=import-outside-toplevel
        for ch in chars:
            for ident in (ch, 'x' + ch, ch + 'x', 'x' + ch + 'y'):
                for maker in (lambda i: namespaceids_t(['ok', i]), lambda i: NamespaceIds(['ok', i])):
                    part.evaluations += 1
                    try:
                        maker(ident)
                        accepted = True
                    except NamespaceIdsTypeError:
                        accepted = False
                    except Exception as exc:  # pylint: disable=broad-except
                        part.violation(f'idlist-exception:{type(exc).__name__}', repr(ident), {'kind': 'idlist', 'ids': ['ok', ident]})
                        continue
                    if accepted != valid_id(ident):
                        part.violation('invalid-identifier-handed-out' if accepted else 'valid-identifier-rejected',
                                       f'list notation: {ident!r}', {'kind': 'idlist', 'ids': ['ok', ident]})
    elif kind == 'codepoints':
        # every Unicode code point up to U+FFFF (+ a few astral ones) alone, after and before an ASCII letter:
        # the library must classify it like the ASCII-only definition of an identifier does
        from dznpy.scoping import NamespaceIds, NamespaceIdsTypeError  # pylint: disable=import-outside-toplevel
        lo, hi = job[1]
        points = list(range(lo, hi)) + ([0x1D400, 0x1F600, 0x10FFFF, 0x2F800] if lo == 0 else [])
        for cp in points:
            if 0xD800 <= cp <= 0xDFFF:
                continue
            ch = chr(cp)
            for ident in (ch, 'x' + ch, ch + 'x'):
                part.evaluations += 1
                try:
                    NamespaceIds([ident])
                    accepted = True
                except NamespaceIdsTypeError:
                    accepted = False
                except Exception as exc:  # pylint: disable=broad-except
                    part.violation(f'idlist-exception:{type(exc).__name__}', repr(ident), {'kind': 'idlist', 'ids': [ident]})
                    continue
                if accepted != valid_id(ident):
                    part.violation('invalid-identifier-handed-out' if accepted else 'valid-identifier-rejected',
                                   f'code point U+{cp:04X}: {ident!r}', {'kind': 'idlist', 'ids': [ident]})
        part.states += len(points)
        part.transitions += len(points)
        part.nontrivial += len(points)
        part.outcome('codepoints')
    elif kind == 'idlists':
        pool = ['a', 'Z9', '_x']
        for n in range(0, 4):
            for combo in itertools.product(pool, repeat=n):
                case = {'kind': 'idlist', 'ids': list(combo)}
                res = judge(case)
                part.evaluations += 1
                part.transitions += 1
                part.states += 1
                part.nontrivial += 1
                part.outcome(f'idlist:{n}')
                for key, what in res:
                    part.violation(key, what, case)
                if n == 2:
                    part.sample(case)
        # 4..7 identifiers (with repetitions and prefix-related names) cut into every possible sequence of levels
        for ids in (['a', 'b', 'ab', 'a'], ['a', 'a', 'a', 'a', 'a'], ['a', 'b', 'ab', 'b', 'a', 'ab'],
                    ['ab', 'a', 'b', 'a', 'ab', 'b', 'a']):
            case = {'kind': 'idlist', 'ids': ids}
            res = judge(case)
            part.evaluations += 1 << (len(ids) - 1)
            part.transitions += 1 << (len(ids) - 1)
            part.states += 1
            part.nontrivial += 1
            part.outcome(f'idlist:{len(ids)}')
            for key, what in res:
                part.violation(key, what, case)
    return part


def explore(ctx):
    pairs = ctx.thorough
    full = [[f, KINDS[i % 7]] for i, f in enumerate(FQNS)]
    sets = [[], full]
    singles = [[f, KINDS[i % 7]] for i, f in enumerate(FQNS)]
    sets += [[d] for d in singles]
    sets += [[d, [d[0], KINDS[(KINDS.index(d[1]) + 3) % 7]]] for d in singles]       # same fqn, two kinds
    sets += [[d, [d[0], d[1]]] for d in singles[:12]]                                 # declared twice, same kind
    sets += [[d, [d[0], KINDS[(KINDS.index(d[1]) + 1) % 7]], [d[0], KINDS[(KINDS.index(d[1]) + 2) % 7]]]
             for d in singles[:12]]                                                   # three declarations, one fqn
    if pairs:
        sets += [[d1, d2] for d1, d2 in itertools.combinations(singles, 2)]
    jobs = [('decls', sets[i::32]) for i in range(32)]
    maxlen = 5 if ctx.thorough else 4
    jobs += [('strings', (i, 16, maxlen)) for i in range(16)]
    jobs += [('tokens', (i, 8, 6 if pairs else 5)) for i in range(8)]
    jobs += [('codepoints', (lo, lo + 4096)) for lo in range(0, 0x10000, 4096)]
    jobs += [('idlists', None), ('charprobes', None)]
    for part in pmap(work, jobs):
        ctx.merge(part)
    ctx.rule = ('declaration sets built one declaration at a time over the 39 FQNs of {a,b,ab}^<=3 (full set, '
                f'all sets of <= {2 if pairs else 1}); each set queried with all 39 names x 41 scopes through '
                'find_fqn / scope_resolution_order / find_any; all strings of length <= '
                f'{maxlen} over a 10-symbol alphabet through namespaceids_t; all id lists of length <=3 through '
                'the three notations, +, +=, sum and NamespaceTree. states = declaration sets + strings + id '
                'lists; evaluations = individual queries; non-trivial = queries/cases with a non-empty expected result')
    ctx.bounds = {'identifiers': 3, 'fqn_length': 3, 'declarations_per_set': 2 if pairs else 1,
                  'string_length': maxlen}
    ctx.assumptions += ['searched names have 1..3 identifiers (the empty name is outside the statement)',
                        'the full set and the small sets together; sets of 3+ declarations other than the full '
                        'set are not enumerated']
    ctx.min_outcomes = 4
