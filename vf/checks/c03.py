"""C03 - port configuration gives every exposed port exactly one semantics or is rejected.

Space : per side every pair (sts, mts) of selections - each ALL/REMAINING/NONE or any non-empty
        subset of {own names (3 quick / 4 thorough), unknown name, name of a port of the other side,
        injected name (requires side)} - x every set of real port names (x injected present or not).
        (i) single side through PortsSemanticsCfg(...).match();
        (ii) end-to-end through PortsCfg + Builder.build on a model that has exactly those ports,
        every side-case paired with fixed representatives of the other side (accepting MTS,
        accepting STS, no ports), and the SAME selection pair on both sides ; thorough additionally crosses one representative per
        (verdict, reason, assignment) class of both sides.
Oracle: vf.refmodels.portcfg.resolve_side (REJECT / ACCEPT(mapping) / EITHER).
"""
import itertools
import re

from ..core import Partial, pmap
from ..refmodels import portcfg as R
from .. import build as B

PID = 'C03'

ACCESSOR_RE = re.compile(r'::(?:\w+::)*(Sts|Mts)<[^>]*>\s+(Provides|Requires)(MultiClient)?(\w+)\(')


def mini_model(prov, req, inj, with_mc=False, interleave=False):
    ports = [[n, ['I'], 'provides', False] for n in prov] + \
            [[n, ['I'], 'requires', False] for n in req] + \
            [[n, ['I'], 'requires', True] for n in inj]
    if interleave:
        # ports NOT grouped by direction: provides, requires, injected, provides, ...
        groups = [[p for p in ports if p[2] == 'provides'], [p for p in ports if p[2] == 'requires' and not p[3]],
                  [p for p in ports if p[3]]]
        ports = [g[i] for i in range(max(map(len, groups)) if ports else 0) for g in groups if i < len(g)]
    events = [['Do', 'in', ['void'], []], ['Done', 'out', ['void'], []]]
    types = []
    if with_mc:
        types = [['enum', 'R', ['Ok', 'No']]]
        events = [['Claim', 'in', ['R'], []], ['Release', 'in', ['void'], []]] + events
    doc = [['ns', ['N'], [['interface', 'I', types, events], ['component', 'Comp', ports]]]]
    return {'doc': doc, 'encapsulee': ['N', 'Comp'], 'file': 'M.dzn'}


def lib_side(sts, mts, ports, label, form=None):
    """(verdict, detail) of the library for one side through PortsSemanticsCfg.match."""
    from dznpy.adv_shell import PortsSemanticsCfg  # pylint: disable=import-outside-toplevel
    from dznpy.adv_shell.types import AdvShellError, RuntimeSemantics  # pylint: disable=import-outside-toplevel
    try:
        cfg = PortsSemanticsCfg(sts=B.mk_select(sts, form), mts=B.mk_select(mts, form))
        res = cfg.match(set(ports), label)
    except AdvShellError as exc:
        return 'REJECT', type(exc).__name__
    except Exception as exc:  # pylint: disable=broad-except
        return 'CRASH', f'{type(exc).__name__}: {exc}'
    return 'ACCEPT', {k: ('STS' if v == RuntimeSemantics.STS else 'MTS') for k, v in res.items()}


def lib_build(model, psel, rsel, mc=None, form=None):
    from dznpy.adv_shell.types import AdvShellError  # pylint: disable=import-outside-toplevel
    try:
        files = B.build(model, {'provides': psel, 'requires': rsel, 'fac': 'create', 'names_form': form,
                                'mc': {'port': mc, 'claim': 'Claim', 'grant': 'Ok', 'release': 'Release'} if mc else None})
    except AdvShellError as exc:
        return 'REJECT', type(exc).__name__, None
    except Exception as exc:  # pylint: disable=broad-except
        return 'CRASH', f'{type(exc).__name__}: {exc}', None
    header = files[0][1]
    mapping = {}
    for sem, direction, _mc, cap in ACCESSOR_RE.findall(header):
        mapping[(direction.lower(), cap)] = sem.upper()
    return 'ACCEPT', mapping, len(files)


def cap(name):
    return name[0].upper() + name[1:]


def judge(case):
    out = []
    kind = case['kind']
    if kind == 'preset':
        return judge_preset(case)
    if kind == 'side':
        side, sts, mts, ports, inj = case['side'], case['sts'], case['mts'], case['ports'], case['inj']
        # a single side does not know whether it is the provides side: the 'mixed' rule is judged end-to-end
        want = R.resolve_side('requires', sts, mts, ports, inj)
        got = lib_side(sts, mts, list(ports) + list(inj), side, case.get('form'))
        desc = f'{side}: sts={sts} mts={mts} ports={ports} injected={inj} -> library {got}, reference {want}'
        if got[0] == 'CRASH':
            out.append((f'side-crash:{got[1].split(":")[0]}', desc))
        elif want[0] == 'ACCEPT':
            if got[0] != 'ACCEPT':
                out.append(('side-valid-rejected', desc))
            elif {k: v for k, v in got[1].items() if k in ports} != want[1]:
                out.append(('side-wrong-mapping', desc))
        elif want[0] == 'REJECT' and got[0] == 'ACCEPT':
            if all(p in got[1] for p in ports):
                out.append((f'side-invalid-accepted:{want[1]}', desc))
        return out
    # end to end
    prov, req, inj = case['prov'], case['req'], case['inj']
    psel, rsel = case['psel'], case['rsel']
    wp = R.resolve_side('provides', psel[0], psel[1], prov, ())
    wr = R.resolve_side('requires', rsel[0], rsel[1], req, inj)
    mc = case.get('mc')
    if mc:
        # a multi-client port must be a provides port of the component and must end up multi-threaded; apart from
        # that the configuration is judged exactly as without multi-client settings
        if mc not in prov:
            wp = ('REJECT', 'mc:not-a-provides-port')
        elif wp[0] == 'ACCEPT' and wp[1][mc] != 'MTS':
            wp = ('REJECT', 'mc:port-not-mts')
    model = mini_model(prov, req, inj, bool(mc), bool(case.get('interleave')))
    verdict, detail, nfiles = lib_build(model, psel, rsel, mc, case.get('form'))
    desc = (f'ports provides={prov} requires={req} injected={inj}; provides(sts={psel[0]}, mts={psel[1]}) '
            f'requires(sts={rsel[0]}, mts={rsel[1]}) multi-client={mc} -> library {verdict} {detail}; '
            f'reference {wp} / {wr}')
    if verdict == 'CRASH':
        reason = wp[1] if wp[0] == 'REJECT' else (wr[1] if wr[0] == 'REJECT' else 'valid')
        out.append((f'build-crash:{detail.split(":")[0]}:{reason}', desc))
        return out
    if 'REJECT' in (wp[0], wr[0]):
        if verdict != 'REJECT':
            reason = wp[1] if wp[0] == 'REJECT' else wr[1]
            out.append((f'invalid-accepted:{reason}', desc))
        return out
    if 'EITHER' in (wp[0], wr[0]):
        if verdict == 'ACCEPT':
            for name in inj:
                if ('requires', cap(name)) in detail:
                    out.append(('injected-port-exposed', desc))
        return out
    if verdict != 'ACCEPT':
        out.append(('valid-rejected', desc))
        return out
    want = {('provides', cap(n)): s for n, s in wp[1].items()}
    want.update({('requires', cap(n)): s for n, s in wr[1].items()})
    if detail != want:
        out.append(('wrong-semantics', desc + f' want={want}'))
    if nfiles != 8:
        out.append(('incomplete-result', desc))
    return out


def judge_preset(case):
    """The preset helper functions must build exactly the documented configuration (checked end-to-end on a
    model with two provides and three requires ports + an injected one)."""
    from dznpy import adv_shell as A  # pylint: disable=import-outside-toplevel
    from dznpy.adv_shell.types import AdvShellError  # pylint: disable=import-outside-toplevel
    from dznpy.scoping import ns_ids_t  # pylint: disable=import-outside-toplevel
    name, ssel, msel, with_mc = case['preset'], case.get('sts'), case.get('mts'), case.get('mc')
    prov, req, inj = ['a', 'b'], ['x', 'y', 'z'], ['i']   # (preset family: its own fixed names)
    want_p = {'all_mts': 'MTS', 'all_sts': 'STS', 'all_sts_all_mts': 'STS', 'all_mts_all_sts': 'MTS',
              'all_mts_mixed_ts': 'MTS', 'all_sts_mixed_ts': 'STS'}[name]
    if name in ('all_mts', 'all_sts_all_mts'):
        wr = ('ACCEPT', {r: 'MTS' for r in req})
    elif name in ('all_sts', 'all_mts_all_sts'):
        wr = ('ACCEPT', {r: 'STS' for r in req})
    else:
        wr = R.resolve_side('requires', ssel, msel, req, inj)
    mcfg = None
    if with_mc:
        mcfg = A.MultiClientPortCfg('a', 'Claim', ns_ids_t('Ok'), 'Release')
    try:
        if name in ('all_mts_mixed_ts', 'all_sts_mixed_ts'):
            args = [B.mk_select(ssel), B.mk_select(msel)]
            pcfg = getattr(A, name)(*args, mcfg) if (with_mc and name == 'all_mts_mixed_ts') else getattr(A, name)(*args)
        elif name in ('all_mts', 'all_mts_all_sts') and with_mc:
            pcfg = getattr(A, name)(mcfg)
        else:
            pcfg = getattr(A, name)()
    except AdvShellError as exc:
        if wr[0] == 'ACCEPT':
            return [('preset-valid-rejected', f'{case}: {exc}')]
        return []
    except Exception as exc:  # pylint: disable=broad-except
        return [(f'preset-crash:{type(exc).__name__}', f'{case}: {exc!r}')]
    ports = [[n, ['I'], 'provides', False] for n in prov] + [[n, ['I'], 'requires', False] for n in req] + \
            [[n, ['I'], 'requires', True] for n in inj]
    doc = [['ns', ['N'], [['interface', 'I', [['enum', 'R', ['Ok', 'No']]],
                           [['Claim', 'in', ['R'], []], ['Release', 'in', ['void'], []], ['Do', 'in', ['void'], []],
                            ['Done', 'out', ['void'], []]]], ['component', 'Comp', ports]]]]
    model = {'doc': doc, 'encapsulee': ['N', 'Comp'], 'file': 'M.dzn'}
    from dznpy.adv_shell import Builder  # pylint: disable=import-outside-toplevel
    try:
        res = Builder().build(B.mk_configuration(model, {'fac': 'create'}, None, pcfg))
    except AdvShellError as exc:
        if wr[0] == 'ACCEPT' and not (with_mc and want_p == 'STS'):
            return [('preset-valid-rejected', f'{case}: {exc}')]
        return []
    except Exception as exc:  # pylint: disable=broad-except
        return [(f'preset-crash:{type(exc).__name__}', f'{case}: {exc!r}')]
    if wr[0] == 'REJECT':
        return [(f'preset-invalid-accepted:{wr[1]}', str(case))]
    if wr[0] == 'EITHER':
        return []
    got = {}
    for sem, direction, _mc, capname in ACCESSOR_RE.findall(res.files[0].contents):
        got[(direction.lower(), capname)] = sem.upper()
    want = {('provides', cap(n)): want_p for n in prov}
    want.update({('requires', cap(n)): s for n, s in wr[1].items()})
    if got != want:
        return [('preset-wrong-semantics', f'{case}: got {got} want {want}')]
    if bool(pcfg.multiclient) != bool(with_mc and name in ('all_mts', 'all_mts_all_sts', 'all_mts_mixed_ts')):
        return [('preset-drops-multiclient', str(case))]
    return []


def preset_cases():
    for name in ('all_mts', 'all_sts', 'all_sts_all_mts', 'all_mts_all_sts'):
        for with_mc in (False, True):
            yield {'kind': 'preset', 'preset': name, 'mc': with_mc}
    sels = R.selections(['x', 'y', 'z', 'u', 'i'])
    for name in ('all_mts_mixed_ts', 'all_sts_mixed_ts'):
        for ssel, msel in itertools.product(sels, repeat=2):
            for with_mc in (False, True):
                yield {'kind': 'preset', 'preset': name, 'sts': ssel, 'mts': msel, 'mc': with_mc}


def universes(thorough):
    # names with numbers whose numeric and string order differ (a2 / a10), and a name that is a prefix of another
    own_p = ['a2', 'a10', 'a', 'd'] if thorough else ['a2', 'a10', 'a']
    own_r = ['x2', 'x10', 'x', 'w'] if thorough else ['x2', 'x10', 'x']
    return own_p, own_r


def side_cases(thorough):
    own_p, own_r = universes(thorough)
    for sts, mts in itertools.product(R.selections(own_p + ['u', own_r[0]]), repeat=2):
        for ports in R.subsets(own_p):
            yield {'kind': 'side', 'side': 'provides', 'sts': sts, 'mts': mts, 'ports': ports, 'inj': []}
            yield {'kind': 'side', 'side': 'provides', 'sts': sts, 'mts': mts, 'ports': ports, 'inj': [], 'form': 'subclass'}
            yield {'kind': 'side', 'side': 'provides', 'sts': sts, 'mts': mts, 'ports': ports, 'inj': [], 'form': 'selsubclass'}
    for sts, mts in itertools.product(R.selections(own_r + ['u', own_p[0], 'i']), repeat=2):
        for ports in R.subsets(own_r):
            for inj in ([], ['i'], ['i', 'j', 'k']):
                yield {'kind': 'side', 'side': 'requires', 'sts': sts, 'mts': mts, 'ports': ports, 'inj': inj}


def e2e_cases(thorough):
    own_p, own_r = universes(thorough)
    # the model always contains port own_r[0] / own_p[0] on the other side so that "name of a port
    # of the other side" really exists there
    other_req = [(own_r[:1], [], ['NONE', 'ALL']), (own_r[:1], [], ['ALL', 'NONE']),
                 (own_r[:1], ['i'], ['REMAINING', 'NONE'])]
    for sts, mts in itertools.product(R.selections(own_p + ['u', own_r[0]]), repeat=2):
        for ports in R.subsets(own_p):
            for req, inj, rsel in other_req:
                yield {'kind': 'e2e', 'prov': ports, 'req': req, 'inj': inj, 'psel': [sts, mts], 'rsel': rsel}
            # the same with multi-client settings for one provides port (first / last own name)
            for mc in (own_p[0], own_p[-1]):
                req, inj, rsel = other_req[0]
                yield {'kind': 'e2e', 'prov': ports, 'req': req, 'inj': inj, 'psel': [sts, mts], 'rsel': rsel, 'mc': mc}
    other_prov = [(own_p[:1], ['NONE', 'ALL']), (own_p[:1], ['ALL', 'NONE'])]
    for sts, mts in itertools.product(R.selections(own_r + ['u', own_p[0], 'i']), repeat=2):
        for ports in R.subsets(own_r):
            for inj in ([], ['i'], ['i', 'j', 'k']):
                for prov, psel in other_prov:
                    yield {'kind': 'e2e', 'prov': prov, 'req': ports, 'inj': inj, 'psel': psel, 'rsel': [sts, mts]}


def equal_selection_cases(thorough):
    """The SAME selection pair used for the provides and the requires side (names of both sides in it)."""
    own_p, own_r = universes(thorough)
    universe = own_p[:2] + own_r[:2] + ['u']
    for sts, mts in itertools.product(R.selections(universe), repeat=2):
        for prov in R.subsets(own_p[:2]):
            for req in R.subsets(own_r[:2]):
                for inj in ([], ['i'], ['i', 'j', 'k']):
                    yield {'kind': 'e2e', 'prov': prov, 'req': req, 'inj': inj, 'psel': [sts, mts], 'rsel': [sts, mts]}
                    # REPRESENTATION: the names of the selections as instances of a str subclass with its own __str__
                    yield {'kind': 'e2e', 'prov': prov, 'req': req, 'inj': inj, 'psel': [sts, mts], 'rsel': [sts, mts],
                           'form': 'subclass'}
                    yield {'kind': 'e2e', 'prov': prov, 'req': req, 'inj': inj, 'psel': [sts, mts], 'rsel': [sts, mts],
                           'interleave': True}
                    # EXTENSION: the selections as instances of a user's own subclass of PortSelect
                    if len(inj) != 1:
                        yield {'kind': 'e2e', 'prov': prov, 'req': req, 'inj': inj, 'psel': [sts, mts], 'rsel': [sts, mts],
                               'form': 'selsubclass'}


# NAME SHAPES: the same family over port names that are keywords / builtins of Python, keywords of C++, or made of underscores
ODD_UNIVERSES = [(['pass', 'from'], ['is', 'None']), (['default', 'new'], ['this', 'union']), (['_a', 'a__b'], ['__x', 'x_']),
                 (['async', 'match'], ['print', 'type']), (['P', 'p'], ['Q1', 'q1'])]


def odd_name_cases(_thorough):
    for own_p, own_r in ODD_UNIVERSES:
        # each side on its own (the other side all-MTS through a wildcard), names of the side + an unknown one
        for sts, mts in itertools.product(R.selections(own_p + ['u']), repeat=2):
            for prov in R.subsets(own_p):
                yield {'kind': 'e2e', 'prov': prov, 'req': own_r[:1], 'inj': [], 'psel': [sts, mts], 'rsel': ['NONE', 'ALL']}
        for sts, mts in itertools.product(R.selections(own_r + ['u']), repeat=2):
            for req in R.subsets(own_r):
                for inj in ([], ['i']):
                    yield {'kind': 'e2e', 'prov': own_p[:1], 'req': req, 'inj': inj, 'psel': ['NONE', 'ALL'], 'rsel': [sts, mts]}


def class_cross_cases(thorough):
    """One representative per (verdict, reason/mapping) class of each side, crossed."""
    own_p, own_r = universes(thorough)

    def classes(side, universe, own, with_inj):
        reps = {}
        for sts, mts in itertools.product(R.selections(universe), repeat=2):
            for ports in R.subsets(own):
                for inj in ([], ['i'], ['i', 'j', 'k']) if with_inj else ([],):
                    want = R.resolve_side(side, sts, mts, ports, inj)
                    key = (want[0], str(sorted(want[1].items())) if want[0] == 'ACCEPT' else want[1],
                           len(ports), bool(inj))
                    reps.setdefault(key, (sts, mts, ports, inj))
        return list(reps.values())

    pcls = classes('provides', own_p + ['u'], own_p, False)
    rcls = classes('requires', own_r + ['u', 'i'], own_r, True)
    for (ps, pm, pports, _), (rs, rm, rports, inj) in itertools.product(pcls, rcls):
        yield {'kind': 'e2e', 'prov': pports, 'req': rports, 'inj': inj, 'psel': [ps, pm], 'rsel': [rs, rm]}


def work(job):
    which, idx, nslots, thorough = job
    part = Partial()
    gen = {'side': side_cases, 'e2e': e2e_cases, 'cross': class_cross_cases, 'equal': equal_selection_cases, 'odd': odd_name_cases,
           'preset': lambda _t: preset_cases()}[which](thorough)
    for k, case in enumerate(gen):
        if k % nslots != idx:
            continue
        res = judge(case)
        part.evaluations += 1
        part.states += 1
        part.transitions += 1
        if case['kind'] == 'preset':
            part.outcome('preset:' + case['preset'])
            part.nontrivial += 1
        elif case['kind'] == 'side':
            want = R.resolve_side('requires', case['sts'], case['mts'], case['ports'], case['inj'])
            part.outcome(f'side:{want[0]}:{want[1] if want[0] == "REJECT" else ""}')
            if want[0] != 'EITHER':
                part.nontrivial += 1
        else:
            wp = R.resolve_side('provides', case['psel'][0], case['psel'][1], case['prov'], ())
            wr = R.resolve_side('requires', case['rsel'][0], case['rsel'][1], case['req'], case['inj'])
            part.outcome(f'e2e:{wp[0]}/{wr[0]}' + ('+mc' if case.get('mc') else ''))
            if 'EITHER' not in (wp[0], wr[0]) or 'REJECT' in (wp[0], wr[0]):
                part.nontrivial += 1
        for key, what in res:
            part.violation(key, what, case)
        if k % 3001 == 7:
            part.sample(case)
    return part


def explore(ctx):
    th = ctx.thorough
    jobs = [('side', i, 8, th) for i in range(8)] + [('e2e', i, 48, th) for i in range(48)] + \
           [('equal', i, 16, th) for i in range(16)] + [('preset', i, 8, th) for i in range(8)] + \
           [('odd', i, 16, th) for i in range(16)]
    if th:
        jobs += [('cross', i, 16, th) for i in range(16)]
    for part in pmap(work, jobs):
        ctx.merge(part)
    n = 4 if th else 3
    ctx.rule = (f'per side every (sts, mts) pair of selections over {n} own names + unknown + other-side name '
                '(+ injected name on the requires side) x every subset of real ports (x injected present/absent): '
                'single-side through match(), end-to-end through Builder.build paired with 3 resp. 2 fixed '
                'representatives of the other side' + ('; plus the cross product of one representative per '
                                                        'verdict class of both sides' if th else '') +
                '; non-trivial = reference is not EITHER')
    ctx.bounds = {'own_names_per_side': n}
    ctx.assumptions += ['EITHER zones: equal wildcards with nothing to assign; both provides selections non-empty '
                        'without actually mixed semantics; naming an injected port',
                        'semantics of an accepted build is read from the accessor return types in the header '
                        '(compiled confirmation in the C++ lab checks C02)']
    ctx.min_outcomes = 6
