"""C17 - text blocks keep one line per entry and flatten content losslessly.

Space : (A) every string of <=3 symbols over {a, space, tab, \\x1f} + the 11 line-break sequences,
        as direct content and inside a list; (B) every ordered content tree with <=N nodes over
        leaves {'', 'a', 'a\\nb', '\\n', ' a ', None, 0, 1.5} and containers {list, dict, TextBlock,
        TextBlock+header} (<=3 children per container), N=4 quick / 5 thorough.
Oracle: vf.refmodels.text (explicit break table; three-valued where the statement is open).
"""
import itertools
import os

from ..core import Partial, pmap
from ..explore import ordered_trees
from ..refmodels import text as R

PID = 'C17'

SYMBOLS = ['a', ' ', '\t', '\x1f'] + R.ALL_BREAK_SEQS
LEAVES = [{'s': ''}, {'s': 'a'}, {'s': 'a\nb'}, {'s': '\n'}, {'s': ' a '}, None, {'n': 0},
          {'n': 1.5}]
INNER = ['L', 'D', 'T', 'H']
BASES = [[], ['x'], ['', 'x', '']]
HEADERS = [('Hdr', ['Hdr']), (['h1', 'h2\nh3'], ['h1', 'h2', 'h3']), (None, []), ('', [])]
APPENDICES = [('default', None, [('',)]),
              ('none', None, [()]),
              ('z', {'s': 'z'}, [('z',)]),
              ('yz', ['L', {'s': 'y'}, {'s': 'z'}], [('y', 'z')]),
              ('tb', ['T', {'s': 'q'}], [('q',)])]
PREAMBLES = [(None, ()), ({'s': 'P'}, ('P',)), (['L', {'s': 'P'}, {'s': 'Q\nR'}], ('P', 'Q', 'R'))]
EMPTY_RESPONSES = [(None, ()), ({'s': 'E'}, ('E',)),
                   (['L', {'s': 'E1'}, {'s': 'E2\nE3'}], ('E1', 'E2', 'E3'))]


def tree_to_enc(tree):
    label, kids = tree
    if kids is None:
        return LEAVES[label]
    return [label] + [tree_to_enc(k) for k in kids]


def all_strings():
    seen = set()
    for n in range(0, 4):
        for combo in itertools.product(SYMBOLS, repeat=n):
            s = ''.join(combo)
            if s not in seen:
                seen.add(s)
                yield s


def emptiness(enc):
    """'empty' | 'nonempty' | 'either' for the question "does the content flatten to nothing"
    as chunk()/cond_chunk() ask it (empty strings do not count there)."""
    skip = R.ref_lines(enc, skip_empty=True)
    keep = R.ref_lines(enc, skip_empty=False)
    if skip == {()}:
        return 'empty' if keep == {()} else 'either'   # only empty strings: statement is open
    if () in skip:
        return 'either'
    return 'nonempty'


SELF_SHAPES = {
    'self': lambda t, T: t, 'alone-in-list': lambda t, T: [t], 'first': lambda t, T: [t, 'x'],
    'after-blank': lambda t, T: ['', t], 'after-piece': lambda t, T: ['x', t], 'after-break': lambda t, T: ['x\ny', t, 'z'],
    'dict-after': lambda t, T: {'k': 'x', 'v': t}, 'twice': lambda t, T: [t, t], 'thrice': lambda t, T: [t, '-', t, '-', t],
    'nested': lambda t, T: ['x', [t]], 'in-block': lambda t, T: ['x', T([t])], 'deep': lambda t, T: [['x', {'a': ['y', t]}], 'z'],
}
SELF_ORIGS = [[], ['a'], ['a', 'b'], ['', 'a', '']]


def judge_self(case):
    """IDENTITY: the content handed over holds the RECEIVING block itself. Differential oracle: the same operation with
    an equal but distinct block in its place (the pieces are taken as they are when the operation starts)."""
    from dznpy.text_gen import TextBlock  # pylint: disable=import-outside-toplevel
    shape = SELF_SHAPES[case['shape']]
    hdr = case.get('header')

    def fresh():
        return TextBlock(list(case['orig']), header=hdr) if hdr else TextBlock(list(case['orig']))
    out = []
    try:
        ref, twin, got = fresh(), fresh(), fresh()
        if case['op'] == 'append':
            ref.append(shape(twin, TextBlock))
            got.append(shape(got, TextBlock))
        elif case['op'] == 'iadd':
            ref += shape(twin, TextBlock)
            got += shape(got, TextBlock)
        else:
            ref = ref + shape(twin, TextBlock)
            got = got + shape(got, TextBlock)
        if list(got.lines) != list(ref.lines) or str(got) != str(ref):
            out.append(('content-holding-the-receiver', f'{case}: lines={got.lines!r}; with an equal but distinct block in its '
                                                        f'place: {ref.lines!r}'))
    except RecursionError:
        out.append(('content-holding-the-receiver:RecursionError', str(case)))
    except Exception as exc:  # pylint: disable=broad-except
        out.append((f'content-holding-the-receiver:{type(exc).__name__}', f'{case}: {exc!r}'))
    return out


def alias_encs():
    """The SAME list / dict / TextBlock object at several positions of one content value."""
    subs = [['L', {'s': ''}], ['L', {'s': 'x'}], ['D', {'s': 'y'}], ['L'], ['T', {'s': 't'}], ['L', {'s': 'a\nb'}, None],
            ['H', {'s': 'q'}], ['L', ['L', {'s': 'z'}]], ['L', {'s': '----'}]]
    out = []
    for sub in subs:
        same = ['=', 1, sub]
        for enc in (['L', {'s': 'a'}, same, {'s': 'b'}, same, {'s': 'c'}], ['D', same, same], ['L', same, ['L', same]],
                    ['L', same, same, same, same], ['T', same, ['D', {'s': 'm'}, same]], ['L', ['T', same], same],
                    ['L', same, {'s': 'text'}, same]):
            out.append(enc)
    return out



# ---------------------------------------------------------------------------------------------
# FAILURE PATHS: an operation that is refused or that dies half-way (a content item whose __str__ raises, a lines
# assignment with a non-str entry) must leave the receiving block as it was, and the next valid operation - on the same
# block, on another block, and on the SAME list / dict object after the offending item was replaced - behaves as ever.
# ---------------------------------------------------------------------------------------------

class _Boom(Exception):
    pass


class _BaseBoom(BaseException):     # not caught by `except Exception` clean-up code
    pass


class _Poison:
    def __init__(self, exc):
        self.exc = exc

    def __str__(self):
        raise self.exc('poisoned item')


REFUSED_SHAPES = {
    'alone': lambda p: p, 'in-list': lambda p: [p], 'last': lambda p: ['x', p], 'first': lambda p: [p, 'y'],
    'middle': lambda p: ['x', p, 'y'], 'dict-value': lambda p: {'a': 'x', 'b': p, 'c': 'y'}, 'nested': lambda p: ['x', ['y', [p]], 'z'],
    'after-break': lambda p: ['u\nv', p],
}
REFUSED_OPS = ('append', 'iadd', 'add', 'radd-ctor', 'lines-setter', 'chunk', 'cond_chunk')
REFUSED_ORIGS = [[], ['a'], ['a', '', 'b']]


def _replace_poison(obj, by):
    """Repair the SAME container objects in place."""
    if isinstance(obj, list):
        for i, x in enumerate(obj):
            if isinstance(x, _Poison):
                obj[i] = by
            else:
                _replace_poison(x, by)
    elif isinstance(obj, dict):
        for k, x in list(obj.items()):
            if isinstance(x, _Poison):
                obj[k] = by
            else:
                _replace_poison(x, by)


def judge_refused(case):
    from dznpy.text_gen import TextBlock, chunk, cond_chunk  # pylint: disable=import-outside-toplevel
    import copy  # pylint: disable=import-outside-toplevel
    out = []
    exc = {'Exception': _Boom, 'BaseException': _BaseBoom}[case['exc']]
    hdr = case.get('header')
    orig = list(case['orig'])
    op = case['op']

    def bad(key, what):
        out.append((f'refused-operation:{key}', f'{case}: {what}'))
    try:
        blk = TextBlock(list(orig), header=hdr) if hdr else TextBlock(list(orig))
        before_lines, before_str = list(blk.lines), str(blk)
        content = REFUSED_SHAPES[case['shape']](_Poison(exc))
        raised = False
        try:
            if op == 'append':
                blk.append(content)
            elif op == 'iadd':
                blk += content
            elif op == 'add':
                _ = blk + content
            elif op == 'radd-ctor':
                _ = TextBlock(content)
            elif op == 'lines-setter':
                # a list of lines holding an entry that is not a string
                blk.lines = ['p', 'q', 7] if case['shape'] == 'last' else ([7, 'p'] if case['shape'] == 'first' else ['p', None, 'q'])
            elif op == 'chunk':
                _ = chunk(content, blk) if case['shape'] != 'alone' else chunk([content], blk)
            else:
                _ = cond_chunk(blk, content, 'nothing')
        except (Exception, _BaseBoom):  # pylint: disable=broad-except
            raised = True
        if not raised:
            return out          # the operation was accepted after all: nothing is demanded here
        if list(blk.lines) != before_lines or str(blk) != before_str:
            bad('receiver-changed', f'lines before {before_lines!r}, after the refused operation {blk.lines!r}')
            return out
        # the next valid operations on the same block
        blk.append('z')
        if list(blk.lines) != before_lines + ['z']:
            bad('next-append', f'{blk.lines!r}')
        blk += ['', 'w']
        if list(blk.lines) != before_lines + ['z', '', 'w']:
            bad('next-iadd', f'{blk.lines!r}')
        want = (hdr + '\n' if hdr else '') + ''.join(x + '\n' for x in before_lines + ['z', '', 'w'])
        if str(blk) != want:
            bad('next-str', f'{str(blk)!r}')
        # the same container objects, repaired in place, flatten like an equal fresh value
        if op != 'lines-setter' and isinstance(content, (list, dict)):
            _replace_poison(content, 'ok')
            twin = copy.deepcopy(content)
            got, ref = TextBlock(['s']), TextBlock(['s'])
            got.append(content)
            ref.append(twin)
            if list(got.lines) != list(ref.lines) or len(got.lines) < 2:
                bad('repaired-container-reused', f'appending the repaired object gives {got.lines!r}, an equal fresh one {ref.lines!r}')
            fresh_blk = TextBlock(content)
            if list(fresh_blk.lines) != list(ref.lines)[1:]:
                bad('repaired-container-in-new-block', f'{fresh_blk.lines!r} vs {list(ref.lines)[1:]!r}')
    except (Exception, _BaseBoom) as err:  # pylint: disable=broad-except
        bad(f'exception:{type(err).__name__}', repr(err))
    return out


def refused_cases():
    for orig in REFUSED_ORIGS:
        for shape in REFUSED_SHAPES:
            for op in REFUSED_OPS:
                for exc in ('Exception', 'BaseException'):
                    for hdr in (None, 'Hdr'):
                        if op == 'lines-setter' and (shape not in ('last', 'first', 'middle') or exc != 'Exception'):
                            continue
                        yield {'kind': 'refused', 'orig': orig, 'shape': shape, 'op': op, 'exc': exc, 'header': hdr}


def judge(case):
    if case.get('kind') == 'self':
        return judge_self(case)
    if case.get('kind') == 'refused':
        return judge_refused(case)
    R.FORM[0] = case.get('form')
    try:
        return _judge(case)
    finally:
        R.FORM[0] = None


def _judge(case):
    from dznpy.text_gen import TextBlock, chunk, cond_chunk  # pylint: disable=import-outside-toplevel
    enc = case['enc']
    out = []

    def bad(key, what):
        out.append((key, f'{what} | content={enc!r}'))

    def mk(e):
        return R.build(e, TextBlock)

    try:
        acceptable = R.ref_lines(enc)
        # L1 -- lines, no breaks, string form
        tb = TextBlock(mk(enc))
        lines = list(tb.lines)
        if tuple(lines) not in acceptable:
            bad('lines', f'lines={lines!r} expected one of {sorted(acceptable)!r}')
        if any(R.has_break(x) for x in lines):
            bad('line-break-in-line', f'lines={lines!r}')
        if any(not isinstance(x, str) for x in lines):
            bad('non-str-line', f'lines={lines!r}')
        if str(tb) != ''.join(x + '\n' for x in lines):
            bad('str-form', f'str={str(tb)!r} lines={lines!r}')
        # L2 -- headers
        for hdr, hdr_lines in HEADERS:
            tbh = TextBlock(mk(enc), header=hdr)
            if tuple(tbh.lines) not in acceptable:
                bad('lines-with-header', f'header={hdr!r} lines={tbh.lines!r}')
            expect = ''.join(x + '\n' for x in hdr_lines + list(tbh.lines))
            if str(tbh) != expect:
                bad('str-form-header', f'header={hdr!r} str={str(tbh)!r} expected={expect!r}')
            if hdr_lines + list(tbh.lines):
                back = TextBlock(str(tbh)).lines
                if back != hdr_lines + list(tbh.lines):
                    bad('roundtrip-header', f'header={hdr!r} back={back!r}')
        # L3 -- round trip
        if lines:
            back = TextBlock(str(tb)).lines
            if back != lines:
                bad('roundtrip', f'lines={lines!r} back={back!r}')
        # L4 -- append / += / +
        for base in BASES:
            for how in ('append', 'iadd'):
                blk = TextBlock(list(base))
                if how == 'append':
                    ret = blk.append(mk(enc))
                else:
                    ret = blk
                    ret += mk(enc)
                if ret is not blk:
                    bad(f'{how}-not-self', f'base={base!r}')
                if blk.lines[:len(base)] != base or tuple(blk.lines[len(base):]) not in acceptable:
                    bad(how, f'base={base!r} result={blk.lines!r}')
            blk = TextBlock(list(base))
            other = mk(enc)
            other_lines = list(other.lines) if isinstance(other, TextBlock) else None
            summed = blk + other
            if summed is blk or summed is other:
                bad('add-not-new', f'base={base!r}')
            if summed.lines[:len(base)] != base or tuple(summed.lines[len(base):]) not in acceptable:
                bad('add', f'base={base!r} result={summed.lines!r}')
            summed.append('zz')
            if blk.lines != base:
                bad('add-changed-left', f'base={base!r} now={blk.lines!r}')
            if other_lines is not None and other.lines != other_lines:
                bad('add-changed-right', f'was={other_lines!r} now={other.lines!r}')
        # L4b -- observe, change in place, observe again: the string form and the lines stay two views of one state
        for base in BASES:
            blk = TextBlock(list(base), header='H')

            def consistent(stage, blk=blk, base=base):
                want = 'H\n' + ''.join(x + '\n' for x in blk.lines)
                first, second = str(blk), str(blk)
                if first != want or second != want:
                    bad(f'views-inconsistent-{stage}', f'base={base!r} lines={blk.lines!r} str={first!r}')
                    return False
                return True
            if not consistent('fresh'):
                break
            blk.append(mk(enc))
            after_append = list(blk.lines)
            if after_append[:len(base)] != base or tuple(after_append[len(base):]) not in acceptable:
                bad('append-after-observation', f'base={base!r} result={after_append!r}')
            consistent('after-append')
            blk += mk(enc)
            if blk.lines[:len(after_append)] != after_append or tuple(blk.lines[len(after_append):]) not in acceptable:
                bad('iadd-after-observation', f'base={base!r} result={blk.lines!r}')
            consistent('after-iadd')
            both = blk + mk(enc)
            if str(both) != ''.join(x + '\n' for x in both.lines) and str(both) != 'H\n' + ''.join(x + '\n' for x in both.lines):
                bad('views-inconsistent-sum', f'base={base!r} lines={both.lines!r} str={str(both)!r}')
            consistent('after-add')
            before = list(blk.lines)
            blk.trim()
            if not R.trim_ok(before, blk.lines, False):
                bad('trim-after-observation', f'before={before!r} after={blk.lines!r}')
            consistent('after-trim')
            blk.lines = ['p', 'q']
            consistent('after-lines-setter')
            blk.lines.append('r')
            consistent('after-lines-append')
        src = mk(enc)
        if isinstance(src, TextBlock):
            snap = list(src.lines)
            cpy = TextBlock(src)
            cpy.append('zz')
            if src.lines != snap:
                bad('ctor-aliases-content', f'was={snap!r} now={src.lines!r}')
        # the lines setter copies: later changes of the caller's list do not reach the block
        mine = ['p', 'q']
        blk = TextBlock()
        blk.lines = mine
        mine.append('r')
        if blk.lines != ['p', 'q']:
            bad('lines-setter-aliases', f'{blk.lines!r}')
        # L5 -- trim
        for end_only in (False, True):
            blk = TextBlock(mk(enc))
            before = list(blk.lines)
            ret = blk.trim(end_only) if end_only else blk.trim()
            if ret is not blk:
                bad('trim-not-self', f'end_only={end_only}')
            if not R.trim_ok(before, blk.lines, end_only):
                bad('trim', f'end_only={end_only} before={before!r} after={blk.lines!r}')
        if case.get('light'):
            return out
        # L6 -- chunk
        emp = emptiness(enc)
        content_opts = R.ref_lines(enc)
        for name, app_enc, app_opts in APPENDICES:
            if name == 'default':
                res = chunk(mk(enc))
            else:
                res = chunk(mk(enc), mk(app_enc))
            if res is None:
                if emp == 'nonempty':
                    bad('chunk-none', f'appendix={name}')
            else:
                if emp == 'empty':
                    bad('chunk-not-none', f'appendix={name} lines={res.lines!r}')
                elif not isinstance(res, TextBlock) or tuple(res.lines) not in {
                        c + a for c in content_opts for a in app_opts}:
                    bad('chunk-lines', f'appendix={name} lines={res.lines!r}')
        # L6b -- whatever the content contributes, it is the same with and without an appendix (a header of a content
        #        block included): chunk(content, appendix) = chunk(content, nothing) + appendix
        bare = chunk(mk(enc), None)
        for name, app_enc, app_opts in APPENDICES[2:]:
            full = chunk(mk(enc), mk(app_enc))
            if (bare is None) != (full is None):
                bad('chunk-emptiness-depends-on-appendix', f'appendix={name}')
            elif bare is not None and tuple(full.lines) not in {tuple(bare.lines) + a for a in app_opts}:
                bad('chunk-content-depends-on-appendix', f'appendix={name}: without {bare.lines!r}, with {full.lines!r}')
        # L7 -- cond_chunk
        if emp != 'either':
            for (pre_enc, pre), (er_enc, erl), (aname, app_enc, app_opts), aon in itertools.product(
                    PREAMBLES, EMPTY_RESPONSES, APPENDICES[::2], (False, True)):
                kwargs = {} if aname == 'default' else {'appendix': mk(app_enc)}
                res = cond_chunk(mk(pre_enc), mk(enc), mk(er_enc), all_or_nothing=aon, **kwargs)
                got = None if res is None else tuple(res.lines)
                if emp == 'nonempty':
                    want = {pre + c + a for c in content_opts for a in app_opts}
                elif aon:
                    want = {erl} if erl else {None}
                else:
                    want = {pre + erl + a for a in app_opts} if (pre or erl) else {None}
                if got not in want:
                    bad('cond_chunk', f'preamble={pre_enc!r} empty_response={er_enc!r} '
                                      f'appendix={aname} all_or_nothing={aon} got={got!r} '
                                      f'want={sorted(map(repr, want))}')
    except Exception as exc:  # pylint: disable=broad-except
        bad(f'exception:{type(exc).__name__}', f'{exc!r}')
    return out


def _run_cases(cases, part):
    for case in cases:
        res = judge(case)
        part.evaluations += 1
        part.transitions += 1
        enc = case['enc']
        nontrivial = not (isinstance(enc, dict) and 's' in enc
                          and not R.has_break(enc['s']) and enc['s'] != '')
        if nontrivial:
            part.nontrivial += 1
        opts = R.ref_lines(enc)
        part.outcome(f'lines={min(len(o) for o in opts)}{"+" if len(opts) > 1 else ""}')
        for key, what in res:
            part.violation(key, what, case)
        if part.evaluations % 997 == 1:
            part.sample(case)


def work_strings(slot):
    idx, nslots = slot[0], slot[1]
    thorough = len(slot) > 2 and slot[2]
    part = Partial()
    cases = []
    for i, s in enumerate(all_strings()):
        if i % nslots == idx:
            cases.append({'enc': {'s': s}})
            cases.append({'enc': ['L', {'s': 'x'}, {'s': s}, None]})
            # REPRESENTATION: the same content as instances of subclasses of str / list / dict
            cases.append({'enc': {'s': s}, 'form': 'subclass'})
            cases.append({'enc': ['L', {'s': 'x'}, ['D', {'s': s}], None], 'form': 'subclass'})
    if idx == 1 % nslots:
        for enc in alias_encs():
            cases.append({'enc': enc})
    if idx == 0:
        # scalars that a truthiness test would mistake for "empty"
        for leaf in ({'n': 0}, {'n': 0.0}, {'b': False}, {'b': True}, {'n': -1}, {'n': 10 ** 20}):
            for enc in (leaf, ['L', leaf], ['D', {'s': 'x'}, leaf], ['T', leaf, {'s': ''}], ['L', ['H', leaf]]):
                cases.append({'enc': enc})
    # SIZE: flat lists of 5..12 (thorough 14) items, every subset of positions holding a piece with a line break
    top = 14 if thorough else 12
    k = 0
    for n in range(5, top + 1):
        for mask in range(1 << n):
            k += 1
            if k % nslots != idx:
                continue
            cases.append({'enc': ['L'] + [{'s': 'a\nb'} if mask >> i & 1 else {'s': 'l'} for i in range(n)], 'light': True})
    _run_cases(cases, part)
    part.states += len(cases)
    if idx == 2 % nslots:
        for orig in SELF_ORIGS:
            for shape in SELF_SHAPES:
                for op in ('append', 'iadd', 'add'):
                    for hdr in (None, 'Hdr'):
                        case = {'kind': 'self', 'orig': orig, 'shape': shape, 'op': op, 'header': hdr}
                        part.evaluations += 1
                        part.states += 1
                        part.transitions += 1
                        part.nontrivial += 1
                        part.outcome('content-holds-receiver')
                        for key, what in judge_self(case):
                            part.violation(key, what, case)
    if idx == 3 % nslots:
        for case in refused_cases():
            part.evaluations += 1
            part.states += 1
            part.transitions += 3
            part.nontrivial += 1
            part.outcome('refused-operation')
            for key, what in judge_refused(case):
                part.violation(key, what, case)
    return part


def work_trees(slot):
    idx, nslots, max_nodes = slot
    part = Partial()
    cases = ({'enc': tree_to_enc(t)} for i, t in enumerate(
        ordered_trees(range(len(LEAVES)), INNER, max_nodes)) if i % nslots == idx)
    before = part.evaluations
    _run_cases(cases, part)
    part.states += part.evaluations - before
    return part


def explore(ctx):
    max_nodes = 5 if ctx.thorough else 4
    ctx.rule = ('every string of <=3 symbols over {a,space,tab,\\x1f}+11 line-break sequences (direct '
                'and inside a list) and every ordered content tree with <= %d nodes over 8 leaves x 4 '
                'container kinds; each generated exactly once (pre-order construction), so states = '
                'cases; non-trivial = anything but a single-line plain string' % max_nodes)
    ctx.bounds = {'string_symbols': 3, 'tree_nodes': max_nodes, 'max_children': 3,
                  'flat_list_items': '5..%d, every subset of positions holding a line break' % (14 if ctx.thorough else 12)}
    nslots = 16 if not ctx.thorough else 64
    jobs = [(work_strings, (i, 16, ctx.thorough)) for i in range(16)] + \
           [(work_trees, (i, nslots, max_nodes)) for i in range(nslots)]
    for part in pmap(_dispatch, jobs):
        ctx.merge(part)
    ctx.assumptions += [
        "content that is a TextBlock *with header* may contribute its lines with or without the "
        "header (statement open)",
        "chunk()/cond_chunk() on content consisting only of empty strings: either verdict accepted",
        "trim(): whitespace-only lines may or may not be removed; only '' must be",
    ]
    ctx.min_outcomes = 3


def _dispatch(job):
    fn, arg = job
    return fn(arg)
