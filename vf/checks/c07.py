"""C07 - names in generated code denote the declaration Dezyne's scoping rules select.

Space : namespaces {global, A, A.B, C, AB} (AB = unrelated sibling whose name has A as a string prefix).
  (a) port type: every assignment of {absent, interface, enum decoy} to the four scopes for the
      simple name X (3^4) x component scope {global, A, A.B} x spelling {X, B.X, A.B.X, A.X, C.X};
  (b) formal types: interface I in {global, A, A.B}; externs named T - each with its own C++ data
      type - in every assignment of {absent, extern, enum decoy} to the four scopes x the same five
      spellings, used by an in-event (in/out/inout formals), an out-event, and (multi-client run)
      the claim and release events;
  (c) claim reply enum: enum R nested in the interface and/or at A.B / A / global / C
      (absent, enum, subint decoy) x spelling {R, I.R, B.I.R, A.B.I.R, C.R};
  (d) encapsulee: component Comp in every subset of {global, A, A.B, C} x requested FQN
      {Comp, A.Comp, A.B.Comp, B.Comp, C.Comp}.
Oracle: reference lookup (modelgen.lookup): exactly one hit of the right kind -> the generated text
      uses that declaration (accessor type ::fqn / lambda parameter type = that extern's data /
      granting value ::fqn::Ok / namespace + member type of the encapsulee); otherwise the build
      raises. Thorough: every uniquely resolving case is also compiled (lab) - see C01/C06.
"""
import itertools
import re

from ..core import Partial, pmap
from .. import modelgen as M
from .. import build as B

PID = 'C07'

SCOPES = [[], ['A'], ['A', 'B'], ['C'], ['AB']]   # 'AB': unrelated sibling whose name has 'A' as STRING prefix
SPELL_X = [['X'], ['B', 'X'], ['A', 'B', 'X'], ['A', 'X'], ['C', 'X'], ['AB', 'X']]
KIND3 = ['absent', 'real', 'decoy']


def nest(path, nodes, multi=False):
    """multi: the whole path as ONE namespace element with a multi-identifier name (namespace A.B { ... })"""
    if multi and len(path) >= 2:
        return [['ns', list(path), nodes]]
    for ident in reversed(path):
        nodes = [['ns', [ident], nodes]]
    return nodes


def scope_tag(scope):
    return '_'.join(scope) or 'G'


def attempt(model, cfg):
    try:
        files = B.build(model, cfg)
        return 'OK', files
    except Exception as exc:  # pylint: disable=broad-except
        return ('LIBERR' if B.is_library_error(exc) else 'CRASH'), f'{type(exc).__name__}: {exc}'


ALL_MTS = {'provides': ['NONE', 'ALL'], 'requires': ['NONE', 'ALL'], 'fac': 'create'}
ALL_STS = {'provides': ['ALL', 'NONE'], 'requires': ['ALL', 'NONE'], 'fac': 'create'}


def judge(case):
    if case.get('pysched'):
        from .. import pysched  # pylint: disable=import-outside-toplevel
        return pysched.judge(case)
    res = globals()['judge_' + case['kind']](case)
    if case.get('lab'):
        from .. import lab  # pylint: disable=import-outside-toplevel
        model = model_a(case) if case['kind'] == 'a' else model_b(case)
        cfg = {'provides': ['NONE', 'ALL'], 'requires': ['NONE', 'ALL'], 'fac': 'create', 'prefix': '',
               'suffix': 'Shell', 'sem': {'p': 'MTS'}, 'mc': None}
        out = lab.run_case({'id': 'c07', 'model': model, 'cfg': cfg})
        if out.get('generation_error') or not out['compiled']:
            res.append(('compiled-confirmation-failed:does-not-compile', out.get('compile_error', '')[:300]))
    return res


# ---- (a) port types -------------------------------------------------------------------------

def padding(i):
    """SIZE: unrelated declarations between the interesting ones, so that the document has 20+ declarations and the
    same-named ones are never adjacent."""
    return [['enum', f'Pad{i}a', ['P']], ['ns', [f'PadNs{i}'], [['extern', f'Pad{i}b', 'int'], ['subint', f'Pad{i}c', 0, 1]]],
            ['extern', f'Pad{i}d', 'long'], ['enum', f'Pad{i}e', ['Q']]]


def model_a(case):
    doc = []
    for i, (scope, kind) in enumerate(zip(case.get('scopes', SCOPES), case['assign'])):
        if case.get('pad'):
            doc += padding(i)
        # REPRESENTATION 'dotted': the declaration carries a multi-identifier name at root level (interface A.B.X)
        # instead of sitting inside namespaces A { B { interface X } } - the same fully qualified name
        dname = '.'.join(scope + ['X']) if case.get('dotted') else 'X'
        where = [] if case.get('dotted') else scope
        if kind == 'real':
            doc += nest(where, [['interface', dname, [], [['Ev', 'in', ['void'], []], ['Ov', 'out', ['void'], []]]]])
        elif kind == 'decoy':
            doc += nest(where, [['enum', dname, ['Ok']]])
    comp_scope = case['scope']
    direction = case.get('dir', 'provides')
    doc += nest(comp_scope, [['component', 'Comp', [['p', case['spell'], direction, False]]]], case.get('multi'))
    return {'doc': doc, 'encapsulee': comp_scope + ['Comp'], 'file': 'M.dzn'}


def judge_a(case):
    model = model_a(case)
    hits = M.lookup(M.declarations(model['doc']), case['spell'], case['scope'])
    verdict, detail = attempt(model, ALL_MTS if case.get('sem', 'MTS') == 'MTS' else ALL_STS)
    desc = f'{case} reference hits={hits} library={verdict} {detail if verdict != "OK" else ""}'
    if len(hits) == 1 and hits[0].kind == 'interface':
        if verdict != 'OK':
            return [('unique-port-type-rejected', desc)]
        want = '::' + '::'.join(hits[0].fqn)
        header = detail[0][1]
        found = re.findall(r'(?:Sts|Mts)<([^>]*)>\s+(?:Provides|Requires)P\(', header)
        if found != [want]:
            return [('wrong-port-type', f'accessor type {found}, expected {want} | {desc}')]
        # member variable / CreatePort type agree as well
        others = set(re.findall(r'(::[\w:]*X) m_[pr]pP;', header))
        if others - {want}:
            return [('wrong-port-member-type', f'{others} | {desc}')]
        return []
    if verdict == 'OK':
        return [(f'unresolvable-port-type-accepted:{len(hits)}hits', desc)]
    if verdict == 'CRASH':
        return [(f'port-type-crash:{detail.split(":")[0]}', desc)]
    return []


# ---- (b) formal types -----------------------------------------------------------------------

def model_b(case):
    doc = []
    for i, (scope, kind) in enumerate(zip(case.get('scopes', SCOPES), case['assign'])):
        if case.get('pad'):
            doc += padding(i)
        dname = '.'.join(scope + ['X']) if case.get('dotted') else 'X'
        where = [] if case.get('dotted') else scope
        if kind == 'real':
            doc += nest(where, [['extern', dname, f'verif::T_{scope_tag(scope)}']])
        elif kind == 'decoy':
            doc += nest(where, [['enum', dname, ['Ok']]])
    spell = case['spell']
    itf_scope = case['scope']
    mc = case.get('mc')
    # events before and after with SAME-NAMED parameters of another, always uniquely resolving extern type
    doc += [['extern', 'ZFix', 'verif::Fixed']]
    events = [['Ev0', 'in', ['void'], [['a', ['ZFix'], 'in'], ['c', ['ZFix'], 'inout']]],
              ['Ov0', 'out', ['void'], [['a', ['ZFix'], 'in']]],
              ['Ev', 'in', ['void'], [['a', spell, 'in'], ['b', spell, 'out'], ['c', spell, 'inout']]],
              ['Ov', 'out', ['void'], [['a', spell, 'in']]],
              ['Ev2', 'in', ['void'], [['b', ['ZFix'], 'out'], ['a', ['ZFix'], 'in']]],
              ['Ov2', 'out', ['void'], [['a', ['ZFix'], 'in']]]]
    if mc:
        events = [['Claim', 'in', ['Res'], [['a', spell, 'in'], ['b', spell, 'out']]],
                  ['Release', 'in', ['void'], [['b', spell, 'inout']]]] + events
    nested = [['enum', 'Res', ['Ok', 'No']]]
    if case.get('nested'):
        nested.append(['enum', 'X', ['Ok']])      # declared inside the referring interface itself
    # 'selfname': the referring interface itself carries the searched simple name (X) - it is then a declaration on
    # its own scope chain
    iname = 'X' if case.get('selfname') else 'I'
    doc += nest(itf_scope, [['interface', iname, nested, events]], case.get('multi'))
    direction = case.get('dir', 'provides')
    ptype = (itf_scope + ['X']) if case.get('selfname') else [iname]      # (self-named: the port type is fully qualified)
    doc += nest(itf_scope, [['component', 'Comp', [['p', ptype, direction, False]]]], case.get('multi'))
    return {'doc': doc, 'encapsulee': itf_scope + ['Comp'], 'file': 'M.dzn'}


PARAM_RE = re.compile(r'\.(?:in|out)\.(\w+) = \[&(?:, identifier)?\]\(([^)]*)\) \{')


def judge_b(case):
    model = model_b(case)
    decls = M.declarations(model['doc'])
    hits = M.lookup(decls, case['spell'], case['scope'] + ['X' if case.get('selfname') else 'I'])
    cfg = dict(ALL_MTS if case.get('sem', 'MTS') == 'MTS' else ALL_STS)
    if case.get('mc'):
        cfg['mc'] = {'port': 'p', 'claim': 'Claim', 'grant': 'Ok', 'release': 'Release'}
    verdict, detail = attempt(model, cfg)
    desc = f'{case} reference hits={hits} library={verdict} {detail if verdict != "OK" else ""}'
    if case.get('selfname'):
        # the PORT type is written X as well: if that lookup (from the component's scope) is not a unique interface the
        # build has to fail whatever the formal types are
        phits = M.lookup(decls, case['scope'] + ['X'], case['scope'])
        if not (len(phits) == 1 and phits[0].kind == 'interface'):
            if verdict == 'OK':
                return [(f'unresolvable-port-type-accepted:{len(phits)}hits', desc)]
            return [(f'port-type-crash:{detail.split(":")[0]}', desc)] if verdict == 'CRASH' else []
    if case.get('sem', 'MTS') == 'STS':
        # STS ports do not use formal types: nothing demanded except no wrong pick
        return [(f'sts-crash:{detail.split(":")[0]}', desc)] if verdict == 'CRASH' and len(hits) == 1 \
            and hits[0].kind == 'extern' else []
    if len(hits) == 1 and hits[0].kind == 'extern':
        if verdict != 'OK':
            return [('unique-formal-type-rejected', desc)]
        data = hits[0].node[2]
        source = detail[1][1]
        found = PARAM_RE.findall(source)
        if not found:
            return [('no-lambda-found', desc)]
        seen = set()
        for evname, params in found:
            seen.add(evname)
            types = [p.strip().rsplit(' ', 1)[0].rstrip('&') for p in params.split(',')]
            want = 'verif::Fixed' if evname in ('Ev0', 'Ov0', 'Ev2', 'Ov2') else data
            if any(t != want for t in types):
                return [('wrong-formal-type', f'event {evname} params {params!r}, expected {want} | {desc}')]
        if not any(e in seen for e in ('Ev', 'Ov', 'Claim')):
            return [('no-lambda-found', desc)]
        return []
    if verdict == 'OK':
        return [(f'unresolvable-formal-type-accepted:{len(hits)}hits', desc)]
    if verdict == 'CRASH' and not (len(hits) == 1 and hits[0].kind != 'extern'):
        # wrong kind (a non-extern found) is outside the well-formed domain: any failure accepted
        return [(f'formal-type-crash:{detail.split(":")[0]}', desc)]
    return []


# ---- (c) claim reply enum -------------------------------------------------------------------

SCOPES_C = [['A', 'B', 'I'], ['A', 'B'], ['A'], [], ['C']]
SPELL_R = [['R'], ['I', 'R'], ['B', 'I', 'R'], ['A', 'B', 'I', 'R'], ['C', 'R']]


def model_c(case):
    doc = [['extern', 'T', 'verif::T1']]
    nested = []
    for scope, kind in zip(SCOPES_C, case['assign']):
        node = ['enum', 'R', ['Ok', 'No']] if kind == 'real' else ['subint', 'R', 0, 3]
        if kind == 'absent':
            continue
        if scope == ['A', 'B', 'I']:
            nested.append(node)
        else:
            doc += nest(scope, [node])
    events = [['Claim', 'in', case['spell'], []], ['Release', 'in', ['void'], []], ['Ov', 'out', ['void'], []]]
    doc += nest(['A', 'B'], [['interface', 'I', nested, events],
                            ['component', 'Comp', [['p', ['I'], 'provides', False]]]])
    return {'doc': doc, 'encapsulee': ['A', 'B', 'Comp'], 'file': 'M.dzn'}


def judge_c(case):
    model = model_c(case)
    hits = M.lookup(M.declarations(model['doc']), case['spell'], ['A', 'B', 'I'])
    cfg = dict(ALL_MTS)
    cfg['mc'] = {'port': 'p', 'claim': 'Claim', 'grant': 'Ok', 'release': 'Release'}
    verdict, detail = attempt(model, cfg)
    desc = f'{case} reference hits={hits} library={verdict} {detail if verdict != "OK" else ""}'
    if len(hits) == 1 and hits[0].kind == 'enum':
        if verdict != 'OK':
            return [('unique-reply-enum-rejected', desc)]
        want = '::' + '::'.join(hits[0].fqn) + '::Ok'
        found = re.findall(r'if \(r == ([\w:]+)\)', detail[1][1])
        if found != [want]:
            return [('wrong-granting-value', f'{found} expected {want} | {desc}')]
        return []
    if verdict == 'OK':
        return [(f'unresolvable-reply-enum-accepted:{len(hits)}hits', desc)]
    if verdict == 'CRASH':
        return [(f'reply-enum-crash:{detail.split(":")[0]}', desc)]
    return []


# ---- (d) encapsulee -------------------------------------------------------------------------

SPELL_D = [['Comp'], ['A', 'Comp'], ['A', 'B', 'Comp'], ['B', 'Comp'], ['C', 'Comp'], ['AB', 'Comp']]


def judge_d(case):
    doc = [['interface', 'I', [], [['Ev', 'in', ['void'], []]]]]
    for scope, present in zip(SCOPES, case['assign']):
        if present:
            doc += nest(scope, [['component', 'Comp', [['p_' + scope_tag(scope), ['I'], 'provides', False]]]])
    model = {'doc': doc, 'encapsulee': case['spell'], 'file': 'M.dzn'}
    hits = [d for d in M.declarations(doc) if d.fqn == tuple(case['spell'])]
    verdict, detail = attempt(model, ALL_MTS)
    desc = f'{case} reference hits={hits} library={verdict} {detail if verdict != "OK" else ""}'
    if len(hits) == 1:
        if verdict != 'OK':
            return [('unique-encapsulee-rejected', desc)]
        header = detail[0][1]
        want = '::' + '::'.join(hits[0].fqn)
        member = re.findall(r'(::[\w:]*Comp) m_encapsulee;', header)
        accessor = re.findall(r'Provides(\w+)\(', header)
        wantacc = 'P_' + scope_tag(list(hits[0].scope))
        ns_line = re.findall(r'^namespace ?([\w:]*) \{', header, re.M)
        want_ns = ['::'.join(hits[0].scope)] if hits[0].scope else []   # global scope: no namespace at all
        if member != [want] or accessor != [wantacc] or ns_line != want_ns:
            return [('wrong-encapsulee', f'member={member} accessor={accessor} namespace={ns_line} '
                                         f'expected {want}/{wantacc}/{want_ns} | {desc}')]
        return []
    if verdict == 'OK':
        return [('unknown-encapsulee-accepted', desc)]
    if verdict == 'CRASH':
        return [(f'encapsulee-crash:{detail.split(":")[0]}', desc)]
    return []


# ---------------------------------------------------------------------------------------------

def cases():
    for assign in itertools.product(KIND3, repeat=5):
        for scope in ([], ['A'], ['A', 'B'], ['AB']):
            for spell in SPELL_X:
                for direction, sem in (('provides', 'MTS'), ('requires', 'STS')):
                    yield {'kind': 'a', 'assign': list(assign), 'scope': scope, 'spell': spell,
                           'dir': direction, 'sem': sem}
    for assign in itertools.product(KIND3, repeat=5):
        for scope in ([], ['A'], ['A', 'B'], ['AB']):
            for spell in SPELL_X:
                yield {'kind': 'b', 'assign': list(assign), 'scope': scope, 'spell': spell}
                yield {'kind': 'b', 'assign': list(assign), 'scope': scope, 'spell': spell, 'dir': 'requires'}
                if spell == ['X']:
                    yield {'kind': 'b', 'assign': list(assign), 'scope': scope, 'spell': spell, 'nested': True}
                    yield {'kind': 'b', 'assign': list(assign), 'scope': scope, 'spell': spell, 'nested': True,
                           'dir': 'requires'}
                    yield {'kind': 'b', 'assign': list(assign), 'scope': scope, 'spell': spell, 'nested': True, 'mc': True}
                yield {'kind': 'b', 'assign': list(assign), 'scope': scope, 'spell': spell, 'mc': True}
                if scope == ['A', 'B']:
                    yield {'kind': 'b', 'assign': list(assign), 'scope': scope, 'spell': spell, 'sem': 'STS'}
    # the referring interface is itself named X (placements in its own scope are then impossible: skipped by validity)
    for assign in itertools.product(KIND3, repeat=5):
        for scope in ([], ['A'], ['A', 'B']):
            if assign[SCOPES.index(scope)] != 'absent':
                continue            # another X in the interface's own scope would be a redeclaration
            for spell in SPELL_X:
                yield {'kind': 'b', 'assign': list(assign), 'scope': scope, 'spell': spell, 'selfname': True}
                yield {'kind': 'b', 'assign': list(assign), 'scope': scope, 'spell': spell, 'selfname': True, 'mc': True}
    # REPRESENTATION: declarations written with multi-identifier names at root level
    for assign in itertools.product(KIND3, repeat=5):
        for scope in (['A'], ['A', 'B']):
            for spell in SPELL_X:
                yield {'kind': 'a', 'assign': list(assign), 'scope': scope, 'spell': spell, 'dir': 'provides',
                       'sem': 'MTS', 'dotted': True}
                yield {'kind': 'b', 'assign': list(assign), 'scope': scope, 'spell': spell, 'dotted': True}
    # SIZE: the same with 25 unrelated declarations interleaved (referring scope A.B)
    for assign in itertools.product(KIND3, repeat=5):
        for spell in SPELL_X:
            yield {'kind': 'a', 'assign': list(assign), 'scope': ['A', 'B'], 'spell': spell, 'dir': 'provides',
                   'sem': 'MTS', 'pad': True}
            yield {'kind': 'b', 'assign': list(assign), 'scope': ['A', 'B'], 'spell': spell, 'pad': True}
    # the referring scope A.B written as ONE multi-identifier namespace element: the intermediate scope A is still on
    # the chain
    for assign in itertools.product(KIND3, repeat=5):
        for spell in SPELL_X:
            yield {'kind': 'a', 'assign': list(assign), 'scope': ['A', 'B'], 'spell': spell, 'dir': 'provides',
                   'sem': 'MTS', 'multi': True}
            yield {'kind': 'b', 'assign': list(assign), 'scope': ['A', 'B'], 'spell': spell, 'multi': True}
    # namespace paths that repeat an identifier (A.A, A.B.A): outward walking must cut by position, not by name
    rep_scopes = [[], ['A'], ['A', 'A'], ['A', 'B'], ['A', 'B', 'A']]
    rep_spell = [['X'], ['A', 'X'], ['A', 'A', 'X'], ['B', 'A', 'X'], ['A', 'B', 'X']]
    for assign in itertools.product(KIND3, repeat=5):
        for scope in (['A', 'A'], ['A', 'B', 'A']):
            for spell in rep_spell:
                yield {'kind': 'a', 'assign': list(assign), 'scope': scope, 'spell': spell, 'dir': 'provides',
                       'sem': 'MTS', 'scopes': rep_scopes}
                yield {'kind': 'b', 'assign': list(assign), 'scope': scope, 'spell': spell, 'scopes': rep_scopes}
    # references qualified with the COMPLETE referring scope while a namespace chain of the same name is nested in
    # that scope or its parent (A.A, A.A.B): the candidate <scope>.<written name> comes before <written name>
    rep2_scopes = [[], ['A'], ['A', 'A'], ['A', 'B'], ['A', 'A', 'B']]
    rep2_spell = [['X'], ['A', 'X'], ['A', 'B', 'X'], ['B', 'X'], ['A', 'A', 'X']]
    for assign in itertools.product(KIND3, repeat=5):
        for scope in (['A'], ['A', 'B'], ['A', 'A']):
            for spell in rep2_spell:
                yield {'kind': 'a', 'assign': list(assign), 'scope': scope, 'spell': spell, 'dir': 'provides',
                       'sem': 'MTS', 'scopes': rep2_scopes}
                yield {'kind': 'b', 'assign': list(assign), 'scope': scope, 'spell': spell, 'scopes': rep2_scopes}
    for assign in itertools.product(KIND3, repeat=5):
        for spell in SPELL_R:
            yield {'kind': 'c', 'assign': list(assign), 'spell': spell}
    for assign in itertools.product((False, True), repeat=5):
        for spell in SPELL_D:
            yield {'kind': 'd', 'assign': list(assign), 'spell': spell}


def work(job):
    idx, nslots = job
    part = Partial()
    for k, case in enumerate(cases()):
        if k % nslots != idx:
            continue
        # FAILURE PATHS: every third case is additionally built from a model that was parsed by a parser instance which had
        # failed on another document before (two kinds of failure); the outcome must be the same
        if (k // nslots) % 3 == 0:
            B.EXTRA_FORMS.add('reused-parser')
            part.extra['cases_also_built_from_a_reused_parser'] += 1
        try:
            res = judge(case)
        finally:
            B.EXTRA_FORMS.discard('reused-parser')
        part.evaluations += 1
        part.states += 1
        part.transitions += 1
        nreal = sum(1 for a in case['assign'] if a in ('real', True))
        if nreal:
            part.nontrivial += 1
        part.outcome(f'{case["kind"]}:{"violation" if res else "ok"}:{min(nreal, 3)}')
        for key, what in res:
            part.violation(key, what, case)
        if k % 1201 == 5:
            part.sample(case)
    B.cleanup_reuse()
    return part


def lab_confirm(job):
    """Thorough: compile + run the uniquely resolving cases of kinds a/b in the C++ lab (distinct,
    non-convertible mock types per declaration: a wrong pick is a compile error or a routing failure)."""
    from .. import lab  # pylint: disable=import-outside-toplevel
    idx, nslots = job
    part = Partial()
    k = 0
    for case in cases():
        if case['kind'] not in ('a', 'b') or case.get('mc') or case.get('sem') == 'STS':
            continue
        model = model_a(case) if case['kind'] == 'a' else model_b(case)
        scope = case['scope'] if case['kind'] == 'a' else case['scope'] + ['I']
        hits = M.lookup(M.declarations(model['doc']), case['spell'], scope)
        want_kind = 'interface' if case['kind'] == 'a' else 'extern'
        if len(hits) != 1 or hits[0].kind != want_kind:
            continue
        k += 1
        if k % nslots != idx:
            continue
        direction = case.get('dir', 'provides')
        cfg = {'provides': ['NONE', 'ALL'], 'requires': ['NONE', 'ALL'], 'fac': 'create', 'prefix': '',
               'suffix': 'Shell', 'sem': {'p': 'MTS'}, 'mc': None}
        res = lab.run_case({'id': 'c07', 'model': model, 'cfg': cfg})
        part.evaluations += 1
        part.states += 1
        part.transitions += 1
        part.nontrivial += 1
        part.extra['compiled_confirmations'] += 1
        rcase = dict(case, lab=True)
        if res.get('generation_error') or not res['compiled']:
            part.outcome('lab:compile-error')
            part.violation('compiled-confirmation-failed:does-not-compile',
                           f'{case}: {res.get("generation_error") or res["compile_error"][:400]}', rcase)
        else:
            bad = [ln for ln in res['lines'] if ln['prop'] == 'C01' and not ln['ok']]
            part.outcome('lab:ok' if not bad and res['exit'] == 0 else 'lab:failed')
            if bad or res['exit'] != 0:
                part.violation('compiled-confirmation-failed:routing',
                               f'{case}: exit {res["exit"]} {[b["subject"] for b in bad][:3]}', rcase)
    return part


def explore(ctx):
    for part in pmap(work, [(i, 32) for i in range(32)]):
        ctx.merge(part)
    if ctx.thorough:
        for part in pmap(lab_confirm, [(i, 48) for i in range(48)]):
            ctx.merge(part)
    # SCHEDULES of the generator: two builds in two Python threads that look names up in ONE shared parsed model
    from .. import pysched, modelgen as MG  # pylint: disable=import-outside-toplevel
    specs = [{'point': dict(MG.BASE_POINT, ns='N.M', spell='partial'), 'cfg_a': {}, 'cfg_b': {}, 'shared': True}]
    if ctx.thorough:
        specs += [{'point': dict(MG.mc_base_point(), ns='N.M.K'), 'cfg_a': {}, 'cfg_b': {}, 'shared': True, 'every': 97},
                  {'point': dict(MG.BASE_POINT, extscope='split', place='parent'), 'cfg_a': {}, 'cfg_b': {'fac': 'import'},
                   'shared': True}]
    for part in pmap(pysched.pair_task, pysched.pair_jobs(specs, 16)):
        ctx.merge(part)
    ctx.rule = ('(a) 3^5 placements of X x 4 component scopes x 6 spellings x {provides/MTS, requires/STS}; (b) 3^5 '
                'placements of extern T x 4 interface scopes x 6 spellings x {provides, requires, multi-client, STS}; '
                '(c) 3^5 placements of enum R x 5 spellings; (d) 2^5 component placements x 6 requested FQNs; '
                'exhaustive; non-trivial = at least one real declaration placed; (e) two builds in two Python threads on one '
                'shared parsed model: every one-preemption schedule (first thread preempted at the first and at the last '
                'execution of every distinct library line, the other build atomic; roles swapped) must give both builds '
                'their sequential output')
    ctx.bounds = {'namespaces': ['<global>', 'A', 'A.B', 'C', 'AB'], 'spellings': 6}
    ctx.assumptions += ['types used by the generated code are read from the generated text in this check; that the '
                        'text compiles against distinct non-convertible mock types is confirmed by the lab checks',
                        'a formal type that resolves to a non-extern declaration is outside the well-formed domain: '
                        'any failing build is accepted there',
                        'single-threaded ports do not use formal types: nothing is demanded for them']
    ctx.min_outcomes = 6
