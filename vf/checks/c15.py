"""C15 - parser rejects malformed input only with its documented errors.

Space : seed documents (every 1-node document of C05 at root and inside a namespace, one large
        document with every construct; thorough: also every 2-node document) x ALL single faults
        at EVERY JSON node: delete key, retype value (null/bool/int/float/str/list/dict),
        retag <class> to every known tag and an unknown one, identifiers replaced by invalid
        ones, lists emptied / element dropped / element duplicated; thorough: all PAIRS of faults
        on the 1-node seeds. Top-level value of every JSON type. Separately: every out event with
        reply in {void,bool,Enum,N.void} x 0..2 formals of every direction, at root / in namespace.
Oracle: returns FileContents or raises DznJsonError or NamespaceIdsTypeError - nothing else;
        out event with non-void reply or an out formal => DznJsonError, otherwise accepted.
"""
import contextlib
import copy
import io
import itertools
import json

from ..core import Partial, pmap
from .. import docgen as D
from . import c05

PID = 'C15'

KNOWN_TAGS = ['root', 'namespace', 'component', 'system', 'foreign', 'interface', 'enum', 'subint',
              'extern', 'import', 'file-name', 'scope_name', 'ports', 'port', 'formals', 'formal',
              'events', 'event', 'signature', 'types', 'fields', 'range', 'data', 'instances',
              'instance', 'bindings', 'binding', 'end-point', 'comment']
BAD_IDS = ['', '1a', 'a b', 'a.b', 'a\n', 'é', 'in', 'void',
           # characters that are special to str.format, %-formatting, string.Template, re and str.split
           '{', '}', '{0}', '{x}', '{out}', 'in}', '%s', '%(a)s', '%', '$a', '\\', '\\1', '(', '[', '*', ' in', 'in ', 'a,b']
RETYPES = [None, True, 7, 1.5, 's', [], {}, ['x'], [None], {'<class>': 'zzz'}, {'ids': ['a']}]

LARGE_DOC = [
    ['import', 'Types.dzn'], ['filename', 'dir/Large.dzn'],
    ['extern', 'Str', 'std::string'], ['enum', 'Color', ['Red', 'Green']], ['subint', 'Small', 0, 7],
    ['interface', 'ITop', [['enum', 'R', ['Ok', 'Nok']], ['subint', 'Cnt', -3, 3]],
     [['Do', 'in', ['R'], [['a', ['Str'], 'in'], ['b', ['Str'], 'out'], ['c', ['N', 'T'], 'inout']]],
      ['Done', 'out', ['void'], [['x', ['Str'], 'in']]]]],
    ['ns', ['N'], [
        ['extern', 'T', 'int'],
        ['interface', 'IHal', [], [['Go', 'in', ['bool'], []], ['Evt', 'out', ['void'], []]]],
        ['component', 'Comp', [['api', ['ITop'], 'provides', False], ['hal', ['IHal'], 'requires', False],
                               ['inj', ['N', 'IHal'], 'requires', True]]],
        ['ns', ['M', 'K'], [
            ['foreign', 'F', [['p', ['N', 'IHal'], 'provides', False]]],
            ['system', 'Sys', [['api', ['ITop'], 'provides', False]],
             [['c', ['N', 'Comp']], ['f', ['F']]],
             [[['api', None], ['api', 'c']], [['hal', 'c'], ['p', 'f']]]],
            ['unknown', 'behavior'],
        ]],
        ['junk', 5],
    ]],
    ['ns', ['N'], [['enum', 'Again', []]]],
]


def parse_text(text, verbose=True):
    from dznpy.json_ast import DznJsonAst  # pylint: disable=import-outside-toplevel
    with contextlib.redirect_stdout(io.StringIO()):
        return DznJsonAst(text, verbose=verbose).process()


BOTH_MODES = [True]     # single faults are parsed with and without verbose logging (pairs: with)


def classify(value):
    """'result' | 'DznJsonError' | 'NamespaceIdsTypeError' | other exception class name"""
    from dznpy.ast import FileContents  # pylint: disable=import-outside-toplevel
    verdicts = []
    for verbose in ((True, False) if BOTH_MODES[0] else (True,)):
        try:
            res = parse_text(json.dumps(value), verbose)
        except Exception as exc:  # pylint: disable=broad-except
            verdicts.append((type(exc).__name__, repr(exc)))
            continue
        if isinstance(res, FileContents):
            verdicts.append(('result', ''))
        else:
            verdicts.append(('non-FileContents:' + type(res).__name__, ''))
    for v in verdicts:
        if v[0] not in ('result', 'DznJsonError', 'NamespaceIdsTypeError'):
            return v
    if len({v[0] for v in verdicts}) > 1:
        return 'verbose-changes-verdict:' + '/'.join(v[0] for v in verdicts), ''
    return verdicts[0]


OPT_CHILD = r'''
import json, sys
sys.dont_write_bytecode = True
sys.path.insert(0, %(verif)r); sys.path.insert(0, %(src)r)
from vf import core; core.import_guard()
from vf.checks import c15
out = {"violations": {}, "evaluations": 0, "nontrivial": 0, "optimize": sys.flags.optimize}
for job in json.loads(sys.stdin.read()):
    part = c15.work(tuple(job))
    out["evaluations"] += part.evaluations
    out["nontrivial"] += part.nontrivial
    for key, val in part.violations.items():
        out["violations"].setdefault(key, [val[0], val[1]])
print(json.dumps(out))
'''


def work_optimized(job):
    """ENVIRONMENT: the interpreter started with -O / -OO (assert statements and docstrings stripped): the same jobs
    in a child interpreter; the verdicts are judged by the same oracle there."""
    import subprocess  # pylint: disable=import-outside-toplevel
    import sys  # pylint: disable=import-outside-toplevel
    from ..core import REPO_SRC, VERIF, HarnessError  # pylint: disable=import-outside-toplevel
    _tag, flag, jobs = job
    part = Partial()
    res = subprocess.run([sys.executable, flag, '-c', OPT_CHILD % {'verif': VERIF, 'src': REPO_SRC}],
                         input=json.dumps(jobs), capture_output=True, text=True, check=False)
    if res.returncode != 0:
        raise HarnessError(f'python {flag} child failed: {res.stderr[-800:]}')
    data = json.loads(res.stdout.strip().splitlines()[-1])
    if data['optimize'] != len(flag) - 1:
        raise HarnessError(f'child did not run with {flag}')
    part.evaluations += data['evaluations']
    part.states += data['evaluations']
    part.transitions += data['evaluations']
    part.nontrivial += data['nontrivial']
    part.extra[f'parsed_under_python{flag}'] += data['evaluations']
    part.outcome(f'python{flag}')
    for key, (what, case) in data['violations'].items():
        part.violation(f'{key}:python{flag}', f'interpreter started with {flag}: {what}', dict(case or {}, pyflag=flag))
    return part


def judge_optimized(case):
    import subprocess  # pylint: disable=import-outside-toplevel
    import sys  # pylint: disable=import-outside-toplevel
    from ..core import REPO_SRC, VERIF  # pylint: disable=import-outside-toplevel
    flag = case['pyflag']
    inner = {k: v for k, v in case.items() if k != 'pyflag'}
    code = ('import json, sys\nsys.dont_write_bytecode = True\nsys.path.insert(0, %r); sys.path.insert(0, %r)\n'
            'from vf import core; core.import_guard()\nfrom vf.checks import c15\n'
            'print(json.dumps(c15.judge(json.loads(sys.stdin.read()))))\n' % (VERIF, REPO_SRC))
    res = subprocess.run([sys.executable, flag, '-c', code], input=json.dumps(inner), capture_output=True, text=True, check=True)
    return [(f'{k}:python{flag}', w) for k, w in json.loads(res.stdout.strip().splitlines()[-1])]


def judge(case):
    if case.get('pyflag'):
        return judge_optimized(case)
    if case.get('via_file'):
        part = Partial()
        _one(case, part, False)
        return [(k, v[0]) for k, v in part.violations.items()]
    if 'deep' in case:
        part = work(('deep',))
        return [(k, v[0]) for k, v in part.violations.items()]
    if 'outevent' in case:
        return judge_outevent(case)
    verdict, detail = classify(case['json'])
    if verdict in ('result', 'DznJsonError', 'NamespaceIdsTypeError'):
        return []
    return [(f'internal:{verdict}', f'{detail} | fault={case.get("faults")} '
                                    f'json={json.dumps(case["json"])[:500]}')]


def judge_outevent(case):
    ret, formals, wrap = case['outevent'][:3]
    spelled = case['outevent'][3] if len(case['outevent']) > 3 else 'out'
    # the first formal is named like the event itself
    event = ['Ev', spelled, ret, [['Ev' if i == 0 else f'a{i}', ['T'], d] for i, d in enumerate(formals)]]
    before = ['Before', 'in', ['void'], []]
    if len(case['outevent']) > 4 and case['outevent'][4]:
        # 'twin': the preceding IN event has exactly the signature of the out event
        before = ['Before', 'in', ret, [list(f) for f in event[3]]]
    doc = [['extern', 'T', 'int'], ['interface', 'I', [['enum', 'E', ['A']]], [before, event]]]
    if wrap:
        doc = [['ns', ['N', 'M'], doc]]
    verdict, detail = classify(D.to_json(doc))
    must_refuse = ret != ['void'] or 'out' in formals
    if spelled != 'out':
        # a direction that is not literally in/out: refusing the document is always fine; treating it as an
        # out event is only fine if the out-event rules are then applied as well
        if verdict == 'DznJsonError' or (verdict == 'result' and not must_refuse):
            return []
        return [('misspelled-out-event-not-refused', f'direction={spelled!r} verdict={verdict} reply={ret} formals={formals}')]
    if must_refuse and verdict != 'DznJsonError':
        return [('out-event-not-refused', f'verdict={verdict} reply={ret} formals={formals}')]
    if not must_refuse and verdict != 'result':
        return [('valid-out-event-refused', f'verdict={verdict} {detail} reply={ret} formals={formals}')]
    return []


# ---------------------------------------------------------------------------------------------

def paths(value, prefix=()):
    """Every node of a JSON value as a path (tuple of keys / indices)."""
    yield prefix
    if isinstance(value, dict):
        for key in value:
            yield from paths(value[key], prefix + (key,))
    elif isinstance(value, list):
        for i, item in enumerate(value):
            yield from paths(item, prefix + (i,))


def get(value, path):
    for step in path:
        value = value[step]
    return value


def faults_at(root, path):
    """All single faults applicable at this node: (op, arg)."""
    node = get(root, path)
    res = []
    if path:
        res.append(('delete', None))
        if isinstance(get(root, path[:-1]), list):
            res.append(('duplicate', None))
    for i, _ in enumerate(RETYPES):
        res.append(('retype', i))
    if isinstance(node, str):
        if path and path[-1] == '<class>':
            for tag in KNOWN_TAGS + ['zzz', '%', '%s', '100%', 'enum%', '{', '{0}', '{x}', '$x', '\\', '', ' enum', 'Enum',
                                     'ENUM', 'enum ', 'a' * 300]:
                if tag != node:
                    res.append(('set', tag))
        else:
            for bad in BAD_IDS:
                if bad != node:
                    res.append(('set', bad))
    if isinstance(node, list) and node:
        res.append(('set', []))
    if isinstance(node, int) and not isinstance(node, bool):
        for alt in (-1, 2 ** 40, 1.0, True,
                    # EDGES of the integer domain: around 2**53, 2**63 and 2**64 (orjson refuses nothing below 2**64), bounds far
                    # below a lower bound (descending ranges), zero and minus zero as float
                    -2, -3, -(2 ** 40), 2 ** 53 + 1, -(2 ** 53) - 1, 2 ** 63 - 1, 2 ** 63, -(2 ** 63), 2 ** 64 - 1, 0.0, -0.0, 1e2, 1.5,
                    # strings that look more or less like integers
                    '5', '-3', '+3', '--3', '+-5', '-+1', '++2', '\u00b2', '\u2460', '\uff11\uff12', ' 1', '1 ', '1.0', '1e3',
                    '0x10', '1_000', '-', '+', '9' * 5000, [1], {'value': 1}):
            res.append(('set', alt))
    return res


def apply_fault(root, path, op, arg):
    """Apply in place on a deep copy made by the caller. Returns False if the path vanished."""
    try:
        if not path:
            return None if op in ('delete', 'duplicate') else (RETYPES[arg] if op == 'retype' else arg)
        parent = get(root, path[:-1])
        last = path[-1]
        if op == 'delete':
            del parent[last]
        elif op == 'duplicate':
            parent.insert(last, copy.deepcopy(parent[last]))
        elif op == 'retype':
            parent[last] = copy.deepcopy(RETYPES[arg])
        elif op == 'set':
            parent[last] = copy.deepcopy(arg)
        return root
    except (KeyError, IndexError, TypeError):
        return root


def all_single_faults(seed_json):
    for path in paths(seed_json):
        for op, arg in faults_at(seed_json, path):
            yield (path, op, arg)


def seeds(two_nodes):
    res = [('large', D.to_json(LARGE_DOC, 'a comment')),
           # REPRESENTATION: the same document with reversed key order and the extra keys real Dezyne emits
           ('large-reshaped', D.to_json(LARGE_DOC, 'a comment', 'reversed+extra'))]
    k = 0
    for forest in c05.forests(2 if two_nodes else 1):
        if not forest:
            continue
        k += 1
        doc = c05.shape_to_doc(forest, own_names=True)
        res.append((f'shape{k}', D.to_json(doc)))
        if len(forest) == 1 and forest[0][1] is None:
            res.append((f'shape{k}-in-ns', D.to_json([['ns', ['A', 'B'], doc]])))
    return res


def work(job):
    try:
        return _work(job)
    finally:
        if 'd' in _DIR:
            import shutil  # pylint: disable=import-outside-toplevel
            shutil.rmtree(_DIR.pop('d'), ignore_errors=True)


def _work(job):
    kind = job[0]
    part = Partial()
    if kind == 'single':
        name, seed, idx, nslots = job[1:]
        for k, (path, op, arg) in enumerate(all_single_faults(seed)):
            if k % nslots != idx:
                continue
            mutated = apply_fault(copy.deepcopy(seed), path, op, arg)
            case = {'json': mutated, 'faults': [[name, list(path), op, arg]], 'via_file': not name.startswith('large')}
            _one(case, part, k % 1499 == 0)
            part.transitions += 1
    elif kind == 'pairs':
        BOTH_MODES[0] = False
        name, seed, idx, nslots = job[1:]
        singles = list(all_single_faults(seed))
        k = 0
        for (p1, o1, a1), (p2, o2, a2) in itertools.combinations(singles, 2):
            k += 1
            if k % nslots != idx:
                continue
            # apply the later path first so that the earlier one stays valid
            mutated = copy.deepcopy(seed)
            mutated = apply_fault(mutated, p2, o2, a2)
            if p1 and mutated is not None and not isinstance(mutated, (dict, list)):
                continue
            try:
                mutated = apply_fault(mutated, p1, o1, a1)
            except Exception:  # pylint: disable=broad-except
                continue
            case = {'json': mutated, 'faults': [[name, list(p1), o1, a1], [name, list(p2), o2, a2]]}
            _one(case, part, k % 49999 == 0)
            part.transitions += 2
    elif kind == 'toplevel':
        for val in RETYPES + [0, -1, '', 'root', [[]], {'<class>': 'root'},
                              {'<class>': 'root', 'elements': []},
                              {'<class>': 'root', 'elements': [], 'working-directory': 1},
                              {'<class>': 'root', 'elements': {}, 'working-directory': '/'},
                              {'<class>': 'root', 'elements': [], 'working-directory': '/', 'comment': 1},
                              {'<class>': 'root', 'elements': [], 'working-directory': '/',
                               'comment': {'<class>': 'comment'}}]:
            _one({'json': val, 'faults': [['toplevel']], 'via_file': True}, part, True)
            part.transitions += 1
    elif kind == 'deep':
        # SIZE: a value nested N levels deep (lists, dicts, mixed) at the places where an element, a types item or a
        # field is expected; built as text (json.dumps would hit Python's own recursion limit)
        for depth in (5, 50, 100, 253, 254, 255, 256, 257, 500, 1000):
            for shape in ('list', 'dict', 'mixed'):
                if shape == 'list':
                    deep = '[' * depth + ']' * depth
                elif shape == 'dict':
                    deep = '{"k":' * depth + '1' + '}' * depth
                else:
                    deep = '{"k":[' * (depth // 2) + '1' + ']}' * (depth // 2)
                docs = {
                    'root-element': '{"<class>":"root","elements":[%s],"working-directory":"/"}' % deep,
                    'namespace-element': '{"<class>":"root","elements":[{"<class>":"namespace","name":{"<class>":"scope_name","ids":["N"]},"elements":[%s]}],"working-directory":"/"}' % deep,
                    'types-item': '{"<class>":"root","elements":[{"<class>":"interface","name":{"<class>":"scope_name","ids":["I"]},"types":{"<class>":"types","elements":[%s]},"events":{"<class>":"events","elements":[]}}],"working-directory":"/"}' % deep,
                    'name': '{"<class>":"root","elements":[{"<class>":"enum","name":%s,"fields":{"<class>":"fields","elements":[]}}],"working-directory":"/"}' % deep,
                    'comment': '{"<class>":"root","elements":[],"working-directory":"/","comment":%s}' % deep,
                }
                for where, text in docs.items():
                    part.evaluations += 1
                    part.states += 1
                    part.transitions += 1
                    part.nontrivial += 1
                    verdicts = []
                    for verbose in (True, False):
                        try:
                            parse_text(text, verbose)
                            verdicts.append('result')
                        except Exception as exc:  # pylint: disable=broad-except
                            verdicts.append(type(exc).__name__)
                    part.outcome('deep:' + verdicts[0])
                    for v in verdicts:
                        if v not in ('result', 'DznJsonError', 'NamespaceIdsTypeError', 'JSONDecodeError'):
                            part.violation(f'internal:{v}', f'{shape} nested {depth} levels as {where}: {v}',
                                           {'deep': [depth, shape, where]})
                            break
    elif kind == 'outevents':
        rets = [['void'], ['bool'], ['E'], ['N', 'void'], ['I', 'E'], ['Void'], ['VOID'], ['void', 'void']]
        for ret in rets:
            for n in range(0, 3):
                for formals in itertools.product(('in', 'out', 'inout'), repeat=n):
                    for wrap, spelled in ((False, 'out'), (True, 'out'), (False, 'Out'), (False, 'OUT'), (True, 'oUt'),
                                          (False, ' out'), (False, 'out ')):
                      for twin in (False, True):
                        case = {'outevent': [ret, list(formals), wrap, spelled, twin]}
                        res = judge(case)
                        part.evaluations += 1
                        part.states += 1
                        part.transitions += 1
                        part.nontrivial += 1
                        part.outcome('outevent:' + ('refuse' if ret != ['void'] or 'out' in formals
                                                    else 'accept'))
                        for key, what in res:
                            part.violation(key, what, case)
                        if n == 2 and ret == ['void']:
                            part.sample(case)
    return part


_DIR = {}


def classify_via_file(value):
    """REPRESENTATION: the same document loaded from a file named by a pathlib.Path (and by bytes)."""
    import os  # pylint: disable=import-outside-toplevel
    import pathlib  # pylint: disable=import-outside-toplevel
    import tempfile  # pylint: disable=import-outside-toplevel
    from dznpy.ast import FileContents  # pylint: disable=import-outside-toplevel
    from dznpy.json_ast import DznJsonAst  # pylint: disable=import-outside-toplevel
    if 'd' not in _DIR or not os.path.isdir(_DIR['d']):
        _DIR['d'] = tempfile.mkdtemp(prefix='vf_c15_')
    path = os.path.join(_DIR['d'], f'doc{os.getpid()}.json')
    with open(path, 'w', encoding='utf-8') as fh:
        json.dump(value, fh)
    for arg in (pathlib.Path(path), path.encode()):
        parser = DznJsonAst()
        verdicts = []
        # FAILURE PATHS: the same instance is asked again after the first attempt (refused or not): the same verdict
        for _attempt in range(2):
            try:
                with contextlib.redirect_stdout(io.StringIO()):
                    res = parser.load_file(arg).process() if not verdicts else parser.process()
            except Exception as exc:  # pylint: disable=broad-except
                if type(exc).__name__ not in ('DznJsonError', 'NamespaceIdsTypeError'):
                    return type(exc).__name__, f'load_file({type(arg).__name__}), attempt {len(verdicts) + 1}: {exc!r}'
                verdicts.append(type(exc).__name__)
                continue
            if not isinstance(res, FileContents):
                return 'non-FileContents:' + type(res).__name__, ''
            verdicts.append('result')
        if verdicts[0] != verdicts[1]:
            return f'second-process-on-the-same-instance:{verdicts[0]}-then-{verdicts[1]}', f'load_file({type(arg).__name__})'
    return 'ok', ''


def _one(case, part, sample):
    verdict, detail = classify(case['json'])
    if case.get('via_file') and verdict in ('result', 'DznJsonError', 'NamespaceIdsTypeError'):
        fverdict, fdetail = classify_via_file(case['json'])
        if fverdict != 'ok':
            verdict, detail = fverdict, fdetail
    part.evaluations += 1
    part.states += 1
    part.outcome(verdict)
    if verdict != 'result':
        part.nontrivial += 1
    if verdict not in ('result', 'DznJsonError', 'NamespaceIdsTypeError'):
        part.violation(f'internal:{verdict}', f'{detail} | fault={case.get("faults")} '
                                             f'json={json.dumps(case["json"])[:400]}', case)
    if sample:
        part.sample({'faults': case['faults']})


def explore(ctx):
    jobs = [('toplevel',), ('outevents',), ('deep',)]
    for name, seed in seeds(two_nodes=ctx.thorough):
        nslots = 8 if name.startswith('large') else 1
        jobs += [('single', name, seed, i, nslots) for i in range(nslots)]
    if ctx.thorough:
        for name, seed in seeds(two_nodes=False):
            if name.startswith('large'):
                continue
            jobs += [('pairs', name, seed, i, 8) for i in range(8)]
    small = [list(j) for j in jobs if j[0] in ('toplevel', 'outevents') or (j[0] == 'single' and not j[1].startswith('large'))]
    nchunk = 6
    optjobs = [('opt', flag, small[i::nchunk]) for flag in ('-O', '-OO') for i in range(nchunk)]
    for part in pmap(_dispatch, [(work, j) for j in jobs] + [(work_optimized, j) for j in optjobs]):
        ctx.merge(part)
    ctx.rule = ('all single faults (delete key / retype to 11 JSON values / retag to every known class tag / '
                'invalid identifiers / list emptied, element dropped, duplicated / int variants) at every JSON '
                'node of every seed document' + (', all pairs of faults on the 1-node seeds' if ctx.thorough else '') +
                '; every out-event signature over 8 reply types x <=2 formals x 3 directions; non-trivial = '
                'the parser did not simply return a result; states = distinct mutated documents; the out-event, top-level and '
                '1-node single-fault families additionally in child interpreters started with -O and with -OO')
    ctx.bounds = {'seeds': 'large document + all 1-node' + (' and 2-node' if ctx.thorough else '') + ' documents',
                  'faults_per_document': 2 if ctx.thorough else 1}
    ctx.assumptions += ['input is always valid JSON (orjson decode errors are outside the statement)']
    ctx.min_outcomes = 3


def _dispatch(item):
    fn, job = item
    return fn(job)
