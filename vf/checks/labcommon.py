"""Shared driver of the lab properties C01, C02, C04, C09, C10: enumerate the model/configuration
points, generate + compile + run each (cached), collect the assertion lines of one property."""
from ..core import Partial, pmap
from .. import lab
from .. import modelgen as M


def run_point(job):
    pt, prop, env_extra, need_mc = job
    part = Partial()
    case = lab.make_case(pt)
    if need_mc and not case['cfg'].get('mc'):
        return part
    res = lab.run_case(case, env_extra)
    pid = case['id']
    part.evaluations += 1
    part.states += 1
    part.transitions += max(1, len([k for k in pt if pt[k] != M.BASE_POINT[k]]))
    rcase = {'point': pt, 'env': env_extra}
    if res.get('generation_error'):
        part.violation(f'generation-failed:{res["generation_error"].split(":")[0]}',
                       f'point {pid}: {res["generation_error"]}', rcase)
        part.outcome('generation-error')
        return part
    if not res['compiled']:
        first = res['compile_error'].splitlines()[0] if res['compile_error'] else '?'
        # normalise: drop file:line prefix
        norm = first.split('error:')[-1].strip()[:80]
        part.violation(f'shell-does-not-compile:{norm}', f'point {pid}: {res["compile_error"][:700]}', rcase)
        part.outcome('compile-error')
        return part
    lines = [ln for ln in res['lines'] if ln['prop'] == prop]
    if prop == 'C09':
        critical = {'m_runtime', 'm_dispatcher', 'm_locator', 'm_encapsulee'}
        for first, second in res.get('reorder', []):
            if first in critical or second in critical:
                part.violation(f'facility-member-order:{first}-after-{second}',
                               f'point {pid}: member {second} is declared (hence constructed) before {first} although '
                               'the constructor initialises them in the other order', rcase)
    done = any(ln['prop'] == 'LAB' and ln['group'] == 'done' for ln in res['lines'])
    if res['exit'] != 0 or not done:
        cause = f'exit {res["exit"]}'
        for ln in res['stderr'].splitlines():
            if 'ERROR: AddressSanitizer' in ln:
                cause = 'AddressSanitizer ' + ln.split('AddressSanitizer:')[-1].split(' on ')[0].strip()
                break
        detail = [ln for ln in res['stderr'].splitlines() if 'terminate' in ln or 'what()' in ln][:3]
        part.violation(f'lab-run-aborted:{cause}:{" ".join(detail)[:90]}',
                       f'point {pid}: driver aborted ({cause}) {detail} last line={res["lines"][-1] if res["lines"] else None}',
                       rcase)
        part.outcome('aborted')
    part.nontrivial += 1 if lines else 0
    part.extra['assertion_groups'] += len(lines)
    part.transitions += len(lines)          # every assertion group is one step executed inside the compiled program
    if prop == 'C04':
        import re  # pylint: disable=import-outside-toplevel
        for ln in lines:
            for num in re.findall(r'(?:histories|explored)=(\d+)', ln['detail']):
                part.extra['histories_replayed_on_fresh_shells'] += int(num)
            for num in re.findall(r'states=(\d+)', ln['detail']):
                part.extra['distinct_selector_states_seen'] += int(num)
    groups = set()
    for ln in lines:
        groups.add(ln['group'])
        if not ln['ok']:
            part.violation(f'{ln["group"]}:{ln["subject"]}', f'point {pid}: {ln["group"]} {ln["subject"]}: {ln["detail"][:600]}',
                           rcase)
    for grp in groups:
        part.outcome(grp)
    if part.evaluations and len(part.samples) < 2:
        part.sample({'point': pid, 'assertion_groups': len(lines),
                     'first': [f'{ln["group"]}:{ln["subject"]}' for ln in lines[:6]]})
    return part


def lab_env(thorough):
    """Run-time parameters of the multi-client history exploration inside the drivers. The same for all
    lab properties of one tier, so that they share the compile+run cache."""
    if thorough:
        return {'VF_C04_DEPTH': '4', 'VF_C04_CLIENTS': '3', 'VF_C04_BFS_DEPTH': '8', 'VF_C04_PERMALL': '8', 'VF_C10_DEPTH': '7'}
    return {'VF_C04_DEPTH': '3', 'VF_C04_CLIENTS': '2', 'VF_C04_BFS_DEPTH': '6', 'VF_C04_PERMALL': '6', 'VF_C10_DEPTH': '5'}


def explore_lab(ctx, prop, k_quick, k_thorough, need_mc=False):
    lab.check_toolchain()
    k = k_thorough if ctx.thorough else k_quick
    env_extra = lab_env(ctx.thorough)
    pts = M.lab_points(k)
    jobs = [(pt, prop, env_extra, need_mc) for pt in pts if not need_mc or pt['mc'] != 'none']
    for part in pmap(run_point, jobs):
        ctx.merge(part)
    ctx.bounds['deviations_from_base_point_and_from_multi_client_base_point'] = k
    ctx.bounds['plus'] = 'semantics x origin cross product (16 points)'
    ctx.bounds['models'] = len(jobs)
    ctx.trusted_base += ['mock dzn:: runtime (vf/cxx/mock)', 'mock "dzn code" header generator (vf/modelgen.py)',
                         'driver generator (vf/lab.py)', 'g++ 12 + AddressSanitizer']
    ctx.assumptions += ['API surface and semantics of the Dezyne C++ runtime are as mocked in vf/cxx/mock/dzn '
                        '(permissive where the real strictness is unknown)',
                        'model space: DESIGN 3.2 (<=2 ports per direction, externs only as event formals)']


def judge_point(case, prop):
    part = run_point((case['point'], prop, case.get('env'), False))
    return [(k, v[0]) for k, v in part.violations.items()]
