"""C06 - generated files form valid, self-contained C++ for every model and configuration.

Space : model/configuration points chosen to contain the named corner cases (encapsulee in the global
        namespace, empty interface, component without ports, multi-client, mixed requires semantics, both
        support-file prefixes, import/create, system) - quick: the corner cases; thorough: additionally
        every point within 1 deviation of the base point. Per point a BFS over *inclusion states* of the 7
        returned headers: state = set of headers already included, transition = include one more (a
        member of the set again = multiple inclusion). quick: every header alone, twice, every ordered
        pair, two full orders; thorough: the complete set-state graph (2^7 x 7 transitions) on three points
        and the quick subset also with clang++. Plus per point: the shell constructed, wired, used and
        destroyed from a SECOND translation unit linked against the separately compiled shell source
        (every public member called); shells generated with different prefixes (incl. prefixes that differ only in a digit,
        in letter case or in an underscore) and one with the same prefix linked into one program; every #include "..." names a returned file or <base>.hh.
Oracle: the compiler and the linker (g++ -std=c++17; clang++ in thorough).
"""
import itertools
import re

from ..core import Partial, pmap
from .. import lab
from .. import modelgen as M
from .. import build as B

PID = 'C06'


def corner_points():
    deltas = [{}, {'ns': ''}, {'ns': 'N.M'}, {'menu': 'empty'}, {'nprov': 0, 'nreq': 0}, {'mc': 'p0:0'},
              {'mc': 'p0:1', 'evnames': 'acqfree', 'prefix': 'Other.Project'}, {'nreq': 2, 'rsem': 'firstmts'},
              {'prefix': 'Other.Project'}, {'psem': 'STS', 'rsem': 'allsts'}, {'fac': 'import'},
              {'kind': 'system', 'ns': ''}, {'ninj': 1}, {'ns': '', 'mc': 'p0:0', 'fac': 'import'},
              # namespace shadowing (an unrooted C++ name would bind to the wrong namespace), per-interface externs,
              # unusual declaration orders
              {'ns': 'N.M', 'place': 'shadow', 'spell': 'full'},
              {'ns': 'N.M', 'place': 'shadow', 'spell': 'full', 'mc': 'p0:0'},
              {'extscope': 'split', 'nreq': 2}, {'extscope': 'split', 'nprov': 2, 'nreq': 2, 'mc': 'p1:0'},
              {'evorder': 'reversed', 'mc': 'p0:2'}, {'evorder': 'interleaved'},
              # the support namespace named like the encapsulee's innermost namespace (an unrooted B::Dzn:: inside A::B
              # binds to A::B), odd identifiers, ports not grouped by direction
              {'ns': 'N.M', 'prefix': 'M'}, {'ns': 'N.M', 'prefix': 'M', 'mc': 'p0:0'}, {'names': 'dunder', 'nreq': 2},
              {'nprov': 2, 'nreq': 2, 'portorder': 'interleaved'},
              # externs whose C++ type is not an identifier chain (comma, blank, parentheses, leading '::', 'struct X &')
              {'extspell': 'exotic'}, {'extspell': 'exotic', 'mc': 'p0:0'}, {'extspell': 'exotic', 'mc': 'p0:0', 'mcsig': 'inout'}]
    out = []
    for d in deltas:
        pt = dict(M.BASE_POINT)
        pt.update(d)
        if M.valid_point(pt):
            out.append(pt)
    return out


def header_kind(name, shell_hh):
    if name == shell_hh:
        return 'shell.hh'
    return 'Dzn_' + name.split('Dzn_')[-1]


def file_name_space():
    """Names of the Dezyne source file: every stem of length 1..2 over {d, z, n, a, _, D} (the letters of the
    extension among them), every letter and digit as the last character of a longer stem, stems containing dots,
    x directory forms x extensions."""
    stems = [''.join(t) for n in (1, 2) for t in itertools.product('dznaD_', repeat=n)]
    stems += ['Mo' + c for c in 'abcdefghijklmnopqrstuvwxyzABCDNZ0189_'] + ['My.Model', 'a.b.c', 'Garden', 'Buzz', 'json', 'dzn']
    for stem in stems:
        for folder in ('', 'some/dir/', './', '../x.y/', '/abs/d.dzn/'):
            for ext in ('.dzn', '.json'):
                yield stem, folder + stem + ext


def file_name_task(case):
    """Text-level: for every file name the shell includes <stem>.hh (the header the Dezyne code generator writes for
    that source file) and the shell files are named <stem><suffix>."""
    bad = []
    n = 0
    for stem, fname in file_name_space():
        model = dict(case['model'])
        model['file'] = fname
        n += 1
        try:
            files = B.build(model, case['cfg'])
        except Exception as exc:  # pylint: disable=broad-except
            bad.append((fname, f'build fails: {exc!r}'))
            continue
        names = [f[0] for f in files]
        suffix = case['cfg'].get('suffix', 'Shell')
        if names[:2] != [stem + suffix + '.hh', stem + suffix + '.cc']:
            bad.append((fname, f'shell files named {names[:2]}'))
        allowed = set(names) | {stem + '.hh'}
        for name, text, _h in files:
            for inc in re.findall(r'^\s*#\s*include\s+"([^"]+)"', text, re.M):
                if inc not in allowed:
                    bad.append((fname, f'{name} includes "{inc}"'))
        if f'#include "{stem}.hh"' not in files[0][1]:
            bad.append((fname, f'{names[0]} does not include the model header "{stem}.hh"'))
    return {'kind': 'file-names', 'point': case['id'], 'bad': bad, 'count': n}


# EMBEDDING: what an ordinary translation unit of the user may hold BEFORE it includes a generated header
USING_STD = ('#include <algorithm>\n#include <cctype>\n#include <cwctype>\n#include <functional>\n#include <locale>\n#include <map>\n'
             '#include <memory>\n#include <mutex>\n#include <optional>\n#include <string>\n#include <vector>\nusing namespace std;\n')


def tu_text(includes, preamble=''):
    return preamble + ''.join(f'#include "{h}"\n' for h in includes) + 'int main() { return 0; }\n'


def other_prefix_build(case):
    """Second shell for the same model: other prefix, other suffix."""
    cfg = dict(case['cfg'])
    cfg['prefix'] = '' if cfg.get('prefix') else 'Other.Project'
    cfg['suffix'] = 'Second'
    files = B.build(case['model'], cfg)
    cfg3 = dict(case['cfg'])
    cfg3['suffix'] = 'Third'
    files3 = B.build(case['model'], cfg3)
    more = []
    for suffix, prefix in (('V1', 'V1'), ('V2', 'V2'), ('Vlow', 'v1'), ('Vx', 'V_1')):
        cfgx = dict(case['cfg'])
        cfgx['suffix'], cfgx['prefix'] = suffix, prefix
        more.append((cfgx, B.build(case['model'], cfgx)))
    return cfg, files, cfg3, files3, more


def coexist_main(facts, cfgs):
    lines = []
    for cfg in cfgs:
        lines.append(f'#include "{facts.base}{cfg["suffix"]}.hh"')
    lines.append('#include <memory>\nint main() {')
    lines.append('  dzn::locator loc; dzn::pump pump; dzn::runtime rt; int n = 0;')
    for p in facts.injected:
        lines.append(f'  {p.cpp_itf} inj_{p.name}{{{{{{"i",nullptr,nullptr,nullptr}},{{"",nullptr,nullptr,nullptr}}}}}}; loc.set(inj_{p.name});')
    for i, cfg in enumerate(cfgs):
        shell_t = '::' + '::'.join(list(facts.scope) + [facts.base + cfg['suffix']])
        log = f'{lab.support_ns(cfg)}::ILog log{i}; ' if cfg.get('mc') else ''
        logarg = f'log{i}, ' if cfg.get('mc') else ''
        if cfg.get('fac', 'create') == 'create':
            lines.append(f'  {{ {log}dzn::locator l2 = loc.clone(); {shell_t} s(l2, {logarg}"x"); ++n; try {{ s.FinalConstruct(); }} catch (const std::exception&) {{ ++n; }} }}')
        else:
            lines.append(f'  {{ {log}dzn::locator l2 = loc.clone(); l2.set(pump).set(rt); {shell_t} s(l2, {logarg}"x"); ++n; try {{ s.FinalConstruct(); }} catch (const std::exception&) {{ ++n; }} }}')
    lines.append('  return n > 0 ? 0 : 1; }')
    return '\n'.join(lines) + '\n'


def plan(case, thorough, full_graph):
    """Returns list of task dicts for one point."""
    facts = M.Facts(case['model'])
    src, names = lab.generate_sources(case)
    shell_hh = names[0]
    headers = [n for n in names if n.endswith('.hh')]
    pid = case['id']
    tasks = []
    # quoted includes closed
    allowed = set(names) | {facts.base + '.hh'}
    bad = []
    for name in names:
        for inc in re.findall(r'^\s*#\s*include\s+"([^"]+)"', src[name], re.M):
            if inc not in allowed:
                bad.append((name, inc))
    tasks.append({'kind': 'includes-closed', 'point': pid, 'bad': bad})
    if pid in ('base', 'mc=p0:0'):
        tasks.append(file_name_task(case))
        # SIZE: long banner lines and long shell names - header and source must still be C++
        long_line = ('word ' * 400)
        variants = []
        for n in (100, 158, 161, 257, 1000):
            variants.append((f'copyright-line-{n}', dict(case['cfg'], copyright=long_line[:n] + '\nsecond line'), case['model']))
            variants.append((f'creator-line-{n}', dict(case['cfg'], creator=long_line[:n]), case['model']))
        for n in (24, 31, 41, 64, 120):
            stem = ('VeryLongDezyneModelFileNameForTheHeatingSubsystemController' * 3)[:n]
            for fac in ('create', 'import'):
                variants.append((f'shell-name-{n + len(case["cfg"].get("suffix", "Shell"))}-{fac}',
                                 dict(case['cfg'], fac=fac), dict(case['model'], file=f'dir/{stem}.dzn')))
        for label, cfg_v, model_v in variants:
            try:
                vcase = {'id': pid, 'point': case['point'], 'model': model_v, 'cfg': cfg_v}
                vsrc, vnames = lab.generate_sources(vcase)
            except Exception as exc:  # pylint: disable=broad-except
                tasks.append({'kind': 'size-generation-failed', 'point': pid, 'label': label, 'error': repr(exc)})
                continue
            del vsrc['driver.cc']
            tasks.append({'kind': 'size-compile', 'point': pid, 'label': label, 'src': vsrc, 'mains': [vnames[1]]})

    def syntax(kind, includes, compiler=None, preamble=''):
        tasks.append({'kind': kind, 'point': pid, 'includes': includes, 'src': src, 'compiler': compiler,
                      'shell_hh': shell_hh, 'preamble': preamble})

    compilers = [None, 'clang++'] if thorough else [None]
    for comp in compilers:
        for h in headers:
            syntax('standalone', [h], comp)
            syntax('double-inclusion', [h, h], comp)
            syntax('standalone-after-using-namespace-std', [h], comp, USING_STD)
        for h1, h2 in itertools.permutations(headers, 2):
            syntax('pair', [h1, h2], comp)
        syntax('full-order', sorted(headers), comp)
        syntax('full-order', sorted(headers, reverse=True), comp)
        syntax('full-order', sorted(headers) + sorted(headers), comp)
    if full_graph:
        for mask in range(1, 1 << len(headers)):
            subset = [h for i, h in enumerate(sorted(headers)) if mask >> i & 1]
            if len(subset) < 2:
                continue    # states of size 0 and 1 are the stand-alone / pair cases above
            for h in headers:
                syntax('set-state', subset + [h])
    # second translation unit
    src2 = dict(src)
    src2['driver.cc'] = lab.gen_driver(facts, case['cfg'], include_source=False)
    tasks.append({'kind': 'other-tu', 'point': pid, 'src': src2, 'mains': [names[1], 'driver.cc']})
    # prefixes coexist
    cfg2, files2, cfg3, files3, more = other_prefix_build(case)
    src3 = dict(src)
    extra_files = [f for _c, fl in more for f in fl] if pid in ('base', 'mc=p0:0') else []
    for name, text, _h in files2 + files3 + extra_files:
        if name in src3 and src3[name] != text:
            tasks.append({'kind': 'same-name-different-content', 'point': pid, 'file': name})
        src3[name] = text
    cfg1 = dict(case['cfg'])
    cfgs = [cfg1, cfg2, cfg3] + ([c for c, _fl in more] if extra_files else [])
    src3['main_coexist.cc'] = coexist_main(facts, cfgs)
    tasks.append({'kind': 'prefixes-coexist', 'point': pid, 'src': src3,
                  'mains': [names[1], files2[1][0], files3[1][0]] +
                           ([fl[1][0] for _c, fl in more] if extra_files else []) + ['main_coexist.cc']})
    return tasks


def run_task(task):
    part = Partial()
    kind = task['kind']
    part.evaluations += 1
    part.states += 1
    part.transitions += 1
    rcase = {'point': task['point'], 'kind': kind, 'includes': task.get('includes'),
             'compiler': task.get('compiler')}
    if kind == 'includes-closed':
        part.outcome('includes-closed')
        for name, inc in task['bad']:
            part.violation(f'quoted-include-not-in-file-set:{inc}', f'point {task["point"]}: {name} includes "{inc}"', rcase)
        return part
    if kind == 'size-generation-failed':
        part.violation(f'size:{task["label"]}:generation-failed', f'point {task["point"]}: {task["error"]}', rcase)
        return part
    if kind == 'size-compile':
        res = lab.run_sources(task['src'], main=task['mains'], syntax_only=True)
        part.outcome('size-compile')
        part.nontrivial += 1
        if not res['compiled']:
            first = (res['compile_error'].splitlines() or ['?'])[0].split('error:')[-1].strip()[:70]
            part.violation(f'size:{task["label"].rsplit("-", 1)[0] if task["label"].startswith("shell") else task["label"]}:{first}',
                           f'point {task["point"]} ({task["label"]}): {res["compile_error"][:500]}', dict(rcase, label=task['label']))
        return part
    if kind == 'file-names':
        part.outcome('file-names')
        part.evaluations += task['count'] - 1
        part.states += task['count'] - 1
        part.transitions += task['count'] - 1
        part.nontrivial += task['count']
        for fname, what in task['bad'][:20]:
            part.violation(f'file-name:{what.split(" ")[0]}:{fname.rsplit("/", 1)[-1][-5:]}',
                           f'point {task["point"]}, source file {fname!r}: {what}', rcase)
        return part
    if kind == 'same-name-different-content':
        part.violation(f'support-file-name-collision:{task["file"]}',
                       f'point {task["point"]}: two builds return a file {task["file"]} with different contents', rcase)
        return part
    if 'includes' in task:
        src = dict(task['src'])
        src['tu.cc'] = tu_text(task['includes'], task.get('preamble', ''))
        res = lab.run_sources(src, main='tu.cc', syntax_only=True, compiler=task['compiler'])
        kinds = [header_kind(h, task['shell_hh']) for h in task['includes']]
        part.outcome(kind)
        part.nontrivial += 1
        if not res['compiled']:
            first = (res['compile_error'].splitlines() or ['?'])[0].split('error:')[-1].strip()[:70]
            label = '+'.join(kinds) if kind in ('standalone', 'double-inclusion', 'pair', 'standalone-after-using-namespace-std') else f'{len(kinds)} headers'
            part.violation(f'{kind}:{label}:{first}',
                           f'point {task["point"]} ({task["compiler"] or "g++"}): including {task["includes"]}: '
                           f'{res["compile_error"][:500]}', rcase)
        return part
    res = lab.run_sources(task['src'], main=task['mains'])
    part.outcome(kind)
    part.nontrivial += 1
    if not res['compiled']:
        first = (res['compile_error'].splitlines() or ['?'])[0]
        norm = first.split('error:')[-1].split('undefined reference to')[-1].strip()[:70]
        part.violation(f'{kind}:does-not-link:{norm}', f'point {task["point"]}: {res["compile_error"][:600]}', rcase)
    elif res['exit'] != 0 or (kind == 'other-tu' and not any(
            ln['prop'] == 'LAB' and ln['group'] == 'done' for ln in res['lines'])):
        part.violation(f'{kind}:run-failed', f'point {task["point"]}: exit {res["exit"]} {res["stderr"][:300]}', rcase)
    return part


def judge(case):
    pt = [p for p in corner_points() + [q for q, _ in M.points(1)] if M.point_id(p) == case['point']]
    if not pt:
        return [('unknown-point', case['point'])]
    out = []
    for task in plan(lab.make_case(pt[0]), True, True):
        if task['kind'] == case['kind'] and task.get('includes') == case.get('includes') and \
                task.get('label') == case.get('label') and \
                task.get('compiler') == case.get('compiler'):
            part = run_task(task)
            out += [(k, v[0]) for k, v in part.violations.items()]
    return out


def explore(ctx):
    lab.check_toolchain()
    pts = corner_points()
    if ctx.thorough:
        seen = {M.point_id(p) for p in pts}
        for pt, _combo in M.points(1):
            if M.point_id(pt) not in seen:
                pts.append(pt)
    tasks = []
    graph_points = {'base', 'mc=p0:0', 'ns='} if ctx.thorough else set()
    for pt in pts:
        case = lab.make_case(pt)
        try:
            tasks += plan(case, ctx.thorough, case['id'] in graph_points)
        except Exception as exc:  # pylint: disable=broad-except
            ctx.violation(f'generation-failed:{type(exc).__name__}', f'point {case["id"]}: {exc!r}',
                          {'point': case['id'], 'kind': 'generate'})
    for part in pmap(run_task, tasks):
        ctx.merge(part)
    ctx.rule = ('per model point: BFS over inclusion states of the 7 returned headers (state = set already included, '
                'transition = include one more; quick: all states of size <=1 and the full set; thorough: the complete '
                'graph on 3 points), each transition one translation unit through the compiler; plus second-TU link/run, '
                'three shells with two prefixes linked into one program, quoted-include closure; states = translation '
                'units')
    ctx.bounds = {'points': len(pts), 'full_inclusion_graph_points': sorted(graph_points)}
    ctx.trusted_base += ['mock dzn:: runtime headers (they include a generous set of standard headers)', 'g++ 12',
                         'clang++ 14 (thorough)']
    ctx.assumptions += ['a missing standard #include is only observable for headers that include no dzn/ header '
                        '(ILog, MutexWrapped, MiscUtils, StrictPort); for the others the real runtime headers decide',
                        'merging inclusion orders into sets: the declarations a set of headers contributes do not '
                        'depend on their order once every order of size <=2 compiles']
    ctx.min_outcomes = 5
