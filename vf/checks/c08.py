"""C08 - output is a pure function of model and configuration.

Space : configurations whose selections name 2-3 ports on either side (every accepted shape),
        multi-client on/off, both facility origins. Nondeterminism is owned through a seam: all
        name sets are ControlledSet objects (user sets; `set` injected into dznpy.ast_view's
        globals; derived sets stay controlled), so every iteration over a set of port names is a
        choice point whose permutation the explorer picks. Stateless DFS over all choice sequences
        with deviation bound d (number of non-identity permutations): d<=1 quick (d<=2 on two
        configurations), d<=2 thorough (d<=3 on two configurations).
Oracle: names, contents and .hash of all eight files byte-identical to the identity-order run;
        hash == md5(utf-8 contents) computed here.
Conformance of the seam: the same builds in child interpreters with PYTHONHASHSEED 0..7 / 0..63 and
        both insertion orders must (a) show at least two different real iteration orders and
        (b) produce exactly the explored output.
"""
import hashlib
import itertools
import json
import os
import subprocess
import sys

from ..core import Partial, pmap, HarnessError, VERIF, REPO_SRC
from .. import build as B

PID = 'C08'


class Controller:
    def __init__(self, prefix):
        self.prefix = list(prefix)
        self.points = []      # (noptions, site)
        self.choices = []

    def choose(self, noptions, site):
        i = len(self.points)
        idx = 0
        if i < len(self.prefix):
            idx = self.prefix[i]
            if idx >= noptions:
                raise HarnessError(f'replay divergence at choice {i}: {idx} >= {noptions}')
        self.points.append((noptions, site))
        self.choices.append(idx)
        return idx


_CTL = [None]


def _nth_permutation(items, idx):
    items = list(items)
    out = []
    fact = [1] * (len(items) + 1)
    for i in range(1, len(items) + 1):
        fact[i] = fact[i - 1] * i
    for i in range(len(items), 0, -1):
        pos, idx = divmod(idx, fact[i - 1])
        out.append(items.pop(pos))
    return out


class ControlledSet(set):
    """A set whose iteration order is an explicit choice of the explorer."""

    def __iter__(self):
        items = sorted(set.__iter__(self))
        ctl = _CTL[0]
        if ctl is None or len(items) < 2:
            return iter(items)
        frame = sys._getframe(1)  # pylint: disable=protected-access
        site = f'{os.path.basename(frame.f_code.co_filename)}:{frame.f_code.co_name}'
        nperm = 1
        for i in range(2, len(items) + 1):
            nperm *= i
        return iter(_nth_permutation(items, ctl.choose(nperm, site)))

    def _wrap(self, res):
        return ControlledSet(res) if isinstance(res, (set, frozenset)) else res

    def __or__(self, other):
        return self._wrap(set.__or__(set(set.__iter__(self)), set(_raw(other))))

    def __ror__(self, other):
        return self._wrap(set(_raw(other)) | set(set.__iter__(self)))

    def __and__(self, other):
        return self._wrap(set(set.__iter__(self)) & set(_raw(other)))

    def __rand__(self, other):
        return self.__and__(other)

    def __sub__(self, other):
        return self._wrap(set(set.__iter__(self)) - set(_raw(other)))

    def __rsub__(self, other):
        return self._wrap(set(_raw(other)) - set(set.__iter__(self)))

    def __xor__(self, other):
        return self._wrap(set(set.__iter__(self)) ^ set(_raw(other)))

    def __rxor__(self, other):
        return self.__xor__(other)

    def union(self, *others):
        res = set(set.__iter__(self))
        for o in others:
            res |= set(_raw(o))
        return ControlledSet(res)

    def intersection(self, *others):
        res = set(set.__iter__(self))
        for o in others:
            res &= set(_raw(o))
        return ControlledSet(res)

    def difference(self, *others):
        res = set(set.__iter__(self))
        for o in others:
            res -= set(_raw(o))
        return ControlledSet(res)

    def copy(self):
        return ControlledSet(set.__iter__(self))


def _raw(obj):
    if isinstance(obj, ControlledSet):
        return set.__iter__(obj)
    return obj


# ---------------------------------------------------------------------------------------------

def mini_model(prov, req, inj, mc):
    # several same-direction formals per event: anything that collects formal names in a set shows up in the
    # real hash-seed runs
    fin = [['alpha', ['T'], 'in'], ['beta', ['T'], 'in'], ['gamma', ['T'], 'in'], ['delta', ['T'], 'out']]
    events = [['Claim', 'in', ['Res'], fin[:2]], ['Release', 'in', ['void'], fin[1:3]], ['Ev', 'in', ['void'], fin],
              ['Ov', 'out', ['void'], fin[:3]], ['Ow', 'out', ['void'], [fin[2], fin[0]]]]
    ports = [[n, ['I'], 'provides', False] for n in prov] + [[n, ['I'], 'requires', False] for n in req] + \
            [[n, ['I'], 'requires', True] for n in inj]
    doc = [['extern', 'T', 'int'],
           ['ns', ['N'], [['interface', 'I', [['enum', 'Res', ['Ok', 'No']]], events],
                          ['component', 'Comp', ports]]]]
    return {'doc': doc, 'encapsulee': ['N', 'Comp'], 'file': 'M.dzn'}


FILE_FORMS = ['Toaster.dzn.json', 'a.b/c.d.dzn', 'M.json.dzn', 'NoExtension', 'x.DZN',
              # characters that are not [A-Za-z0-9_.]: whatever is derived from the name (file names, include guards, struct
              # names) must not depend on the interpreter's string hashing
              'Ger\u00e4t.dzn', 'my-model.dzn', 'My Model.dzn', '\u30e2\u30c7\u30eb.dzn', 'a+b.dzn']
SUFFIX_FORMS = ['\u00e9', 'H\u00fclle', '_2', '-x', ' S']


PROV_OPTS = [(['hal', 'hal2'], ['NONE', 'ALL']), (['hal', 'hal2'], ['ALL', 'NONE']),
             (['hal', 'hal2'], ['NONE', ['hal', 'hal2']]), (['a', 'bb', 'ccc'], [['a', 'bb', 'ccc'], 'NONE']),
             (['a', 'bb', 'ccc'], ['NONE', ['ccc', 'a', 'bb']]), (['pX', 'Px'], ['NONE', ['pX', 'Px']])]
REQ_OPTS = [(['x', 'y', 'z'], [['x', 'y'], 'REMAINING']), (['x', 'y', 'z'], ['REMAINING', ['x', 'y']]),
            (['x', 'y', 'z'], [['x'], ['y', 'z']]), (['x', 'y', 'z'], [['x', 'y', 'z'], 'NONE']),
            (['r1', 'r2'], ['NONE', ['r1', 'r2']]), (['r1', 'r2'], ['NONE', 'ALL']),
            # names that are equal under case folding / differ only in length: tie-breaking of "clever" sort keys
            (['aB', 'Ab', 'ab_'], [['aB', 'Ab'], 'REMAINING']), (['aB', 'Ab', 'ab_'], ['NONE', ['Ab', 'ab_', 'aB']]),
            # explicit selections that also name the INJECTED ports (inj, inj2, Inj)
            (['x', 'y'], [['x', 'inj', 'inj2'], ['y', 'Inj']]), (['x', 'y'], [['inj2', 'Inj', 'inj'], 'REMAINING'])]


def configurations():
    for (prov, psel), (req, rsel), mc, fac in itertools.product(PROV_OPTS, REQ_OPTS, (False, True),
                                                               ('create', 'import')):
        if mc and psel[1] == 'NONE':
            continue   # multi-client needs an MTS provides port
        if fac == 'import' and (mc or prov[0] != 'hal'):
            continue   # the origin does not interact with name sets: vary it on a subset only
        names_inj = any(not isinstance(x, str) and 'inj' in x for x in rsel)
        if names_inj and (mc or prov[0] != 'hal'):
            continue   # selections naming injected ports: on a subset of the provides options only
        yield {'prov': prov, 'req': req, 'inj': ['inj', 'inj2', 'Inj'] if names_inj else ['inj'], 'psel': psel,
               'rsel': rsel, 'mc': mc, 'fac': fac}


def big_configurations():
    """SIZE: selections naming 11..13 ports (far too many permutations for the controlled exploration): covered by the
    real hash seeds x insertion orders only."""
    names = [f'port{i}' for i in range(13)]
    yield {'prov': ['hal', 'hal2'], 'req': names, 'inj': ['inj'], 'psel': ['NONE', 'ALL'], 'rsel': [names[:11], 'REMAINING'],
           'mc': False, 'fac': 'create'}
    yield {'prov': names[:12], 'req': ['x'], 'inj': ['inj'], 'psel': ['NONE', names[:12]], 'rsel': [['x'], 'NONE'],
           'mc': True, 'fac': 'create'}
    yield {'prov': ['hal'], 'req': names, 'inj': ['inj'], 'psel': ['ALL', 'NONE'], 'rsel': [names[:6], names[6:]],
           'mc': False, 'fac': 'import'}
    # other forms of the source file name (compound / unusual extensions): only the real hash seeds can tell
    for form in FILE_FORMS:
        yield {'prov': ['hal', 'hal2'], 'req': ['x', 'y', 'z'], 'inj': ['inj'], 'psel': ['NONE', 'ALL'],
               'rsel': [['x', 'y'], 'REMAINING'], 'mc': False, 'fac': 'create', 'file': form}
    for suffix in SUFFIX_FORMS:
        yield {'prov': ['hal', 'hal2'], 'req': ['x', 'y', 'z'], 'inj': ['inj'], 'psel': ['NONE', 'ALL'],
               'rsel': [['x', 'y'], 'REMAINING'], 'mc': False, 'fac': 'create', 'suffix': suffix}


def mk_select(sel, reverse=False, controlled=True):
    from dznpy.adv_shell import PortSelect, PortWildcard  # pylint: disable=import-outside-toplevel
    if isinstance(sel, str):
        return PortSelect(PortWildcard[sel])
    names = list(reversed(sel)) if reverse else list(sel)
    if controlled:
        return PortSelect(ControlledSet(names))
    val = set()
    for n in names:
        val.add(n)
    return PortSelect(val)


def run_build(conf, reverse=False, controlled=True):
    from dznpy.adv_shell import Builder, PortsCfg, PortsSemanticsCfg, MultiClientPortCfg  # pylint: disable=import-outside-toplevel
    from dznpy.scoping import ns_ids_t  # pylint: disable=import-outside-toplevel
    model = mini_model(conf['prov'], conf['req'], conf['inj'], conf['mc'])
    if conf.get('file'):
        model['file'] = conf['file']
    fct = B.parse_model(model)
    mcfg = MultiClientPortCfg(conf['prov'][0], 'Claim', ns_ids_t('Ok'), 'Release') if conf['mc'] else None
    pcfg = PortsCfg(provides=PortsSemanticsCfg(sts=mk_select(conf['psel'][0], reverse, controlled),
                                               mts=mk_select(conf['psel'][1], reverse, controlled)),
                    requires=PortsSemanticsCfg(sts=mk_select(conf['rsel'][0], reverse, controlled),
                                               mts=mk_select(conf['rsel'][1], reverse, controlled)),
                    multiclient=mcfg)
    cfg = B.mk_configuration(model, {'fac': conf['fac'], 'copyright': '(c) x', 'creator': 'me',
                                     'suffix': conf.get('suffix', 'Shell')}, fct, pcfg)
    res = Builder().build(cfg)
    return [(f.filename, f.contents, f.hash) for f in res.files]


STAGES = ['after-PortSelect', 'after-PortsSemanticsCfg', 'after-PortsCfg', 'after-Configuration', 'after-str',
          'after-first-build']


def late_completion_run(conf, stage):
    """The name sets of the configuration are constructed in two steps: the first name before the set is wrapped,
    the remaining names at `stage`. At the moment of the (last) build the inputs equal those of run_build()."""
    from dznpy.adv_shell import Builder, PortSelect, PortWildcard, PortsCfg, PortsSemanticsCfg, \
        MultiClientPortCfg  # pylint: disable=import-outside-toplevel
    from dznpy.scoping import ns_ids_t  # pylint: disable=import-outside-toplevel
    pending = []

    def sel(desc):
        if isinstance(desc, str):
            return PortSelect(PortWildcard[desc])
        val = {desc[0]}
        pending.append((val, list(desc[1:])))
        return PortSelect(val)

    def complete(now):
        if now == stage:
            for val, rest in pending:
                for name in rest:
                    val.add(name)
    model = mini_model(conf['prov'], conf['req'], conf['inj'], conf['mc'])
    fct = B.parse_model(model)
    sels = [sel(conf['psel'][0]), sel(conf['psel'][1]), sel(conf['rsel'][0]), sel(conf['rsel'][1])]
    complete('after-PortSelect')
    prov = PortsSemanticsCfg(sts=sels[0], mts=sels[1])
    req = PortsSemanticsCfg(sts=sels[2], mts=sels[3])
    complete('after-PortsSemanticsCfg')
    mcfg = MultiClientPortCfg(conf['prov'][0], 'Claim', ns_ids_t('Ok'), 'Release') if conf['mc'] else None
    pcfg = PortsCfg(provides=prov, requires=req, multiclient=mcfg)
    complete('after-PortsCfg')
    cfg = B.mk_configuration(model, {'fac': conf['fac'], 'copyright': '(c) x', 'creator': 'me'}, fct, pcfg)
    complete('after-Configuration')
    if stage in ('after-str', 'after-first-build'):
        _ = str(pcfg), repr(pcfg), str(prov), str(req), [str(x) for x in sels], hash(str(cfg.ports_cfg))
    complete('after-str')
    if stage == 'after-first-build':
        try:
            Builder().build(cfg)
        except Exception:  # pylint: disable=broad-except
            pass            # the incomplete configuration may well be invalid
        complete('after-first-build')
    res = Builder().build(cfg)
    return [(f.filename, f.contents, f.hash) for f in res.files]


def controlled_run(conf, prefix):
    import dznpy.ast_view as av  # pylint: disable=import-outside-toplevel
    ctl = Controller(prefix)
    _CTL[0] = ctl
    av.set = ControlledSet
    try:
        files = run_build(conf)
    finally:
        _CTL[0] = None
        if 'set' in vars(av):
            del av.set
    return files, ctl


def explore_conf(conf, bound, part, stop_after_first=True):
    """Stateless DFS with deviation bounding. Returns identity output."""
    # "the process it runs in": another configuration with the same file names is built first
    decoy = dict(conf, psel=['NONE', 'ALL'] if conf['psel'] != ['NONE', 'ALL'] else ['NONE', list(conf['prov'])],
                 mc=False)
    run_build(decoy, controlled=False)
    base_files, base_ctl = controlled_run(conf, [])
    part.evaluations += 1
    for name, contents, hsh in base_files:
        if hashlib.md5(contents.encode('utf-8')).hexdigest() != hsh:
            part.violation(f'hash-not-md5:{name.split(".")[-1]}', f'{name}: reported {hsh}, md5 of the contents is '
                           f'{hashlib.md5(contents.encode("utf-8")).hexdigest()} (after an earlier build of another '
                           f'configuration in the same process) | conf={conf}', {'conf': conf, 'prefix': []})
    frontier = [([], base_ctl)]
    seen_sites = set()
    guilty = set()          # sites whose deviation alone (fewest deviations first) changes the output
    nexec = 1
    for _level in range(1, bound + 1):
        nxt = []
        for prefix, ctl in frontier:
            for i in range(len(prefix), len(ctl.points)):
                nopt, site = ctl.points[i]
                seen_sites.add(site)
                for alt in range(1, nopt):
                    new_prefix = ctl.choices[:i] + [alt]
                    files, ctl2 = controlled_run(conf, new_prefix)
                    nexec += 1
                    part.evaluations += 1
                    part.transitions += 1
                    nxt.append((new_prefix, ctl2))
                    if files == base_files:
                        part.outcome('identical')
                        continue
                    part.outcome('differs')
                    part.nviol += 1
                    dev_sites = [ctl2.points[j][1] for j, c in enumerate(new_prefix) if c != 0]
                    if any(s in guilty for s in dev_sites):
                        continue    # explained by a smaller counterexample
                    guilty.update(dev_sites)
                    diff = [a[0] for a, b in zip(base_files, files) if a != b] or ['<file list>']
                    part.violation(f'output-depends-on-set-order:{"+".join(dev_sites)}:{diff[0].split(".")[-1]}',
                                   f'choice sequence {new_prefix} (sites {dev_sites}) changes {diff} | conf={conf}',
                                   {'conf': conf, 'prefix': new_prefix})
        frontier = nxt
    part.extra['choice_points_per_build_max'] = max(part.extra.get('choice_points_per_build_max', 0),
                                                     len(base_ctl.points))
    part.states += nexec
    part.nontrivial += nexec - 1
    return base_files, sorted(seen_sites)


def judge_stage(case):
    base = run_build(case['conf'], controlled=False)
    try:
        got = late_completion_run(case['conf'], case['stage'])
    except Exception as exc:  # pylint: disable=broad-except
        return [(f'late-completed-set-breaks-build:{case["stage"]}:{type(exc).__name__}', repr(exc))]
    if [(n, h) for n, _c, h in got] != [(n, h) for n, _c, h in base]:
        return [(f'output-depends-on-when-the-set-was-completed:{case["stage"]}', 'differs')]
    return []


def judge(case):
    if case.get('hash'):
        return judge_hash(case)
    if 'stage' in case:
        return judge_stage(case)
    conf = case['conf']
    if case.get('child'):
        return judge_child(case)
    decoy = dict(conf, psel=['NONE', 'ALL'] if conf['psel'] != ['NONE', 'ALL'] else ['NONE', list(conf['prov'])],
                 mc=False)
    run_build(decoy, controlled=False)
    base, _ = controlled_run(conf, [])
    a, _ = controlled_run(conf, case['prefix'])
    b, _ = controlled_run(conf, case['prefix'])
    out = []
    if a != b:
        raise HarnessError('replay of a choice sequence is not deterministic')
    for name, contents, hsh in base:
        if hashlib.md5(contents.encode('utf-8')).hexdigest() != hsh:
            out.append((f'hash-not-md5:{name.split(".")[-1]}', hsh))
    if a != base:
        diff = [x[0] for x, y in zip(base, a) if x != y]
        out.append((case.get('key', 'output-depends-on-set-order'), f'prefix {case["prefix"]} changes {diff}'))
    return out


def work(job):
    conf, bound = job
    part = Partial()
    base, sites = explore_conf(conf, bound, part)
    # construction schedules of the name sets: completed at every later stage, the build must give the same files
    if any(not isinstance(x, str) and len(x) >= 2 for x in conf['psel'] + conf['rsel']):
        for stage in STAGES:
            part.evaluations += 1
            part.states += 1
            part.transitions += 1
            part.nontrivial += 1
            try:
                got = late_completion_run(conf, stage)
            except Exception as exc:  # pylint: disable=broad-except
                part.violation(f'late-completed-set-breaks-build:{stage}:{type(exc).__name__}',
                               f'{exc!r} | conf={conf}', {'conf': conf, 'stage': stage})
                continue
            if [(n, h) for n, _c, h in got] != [(n, h) for n, _c, h in base]:
                diff = [a[0] for a, b in zip(base, got) if a[1] != b[1]]
                part.violation(f'output-depends-on-when-the-set-was-completed:{stage}',
                               f'files {diff} differ when the name sets are completed {stage} | conf={conf}',
                               {'conf': conf, 'stage': stage})
    part.extra['configurations'] = 1
    part.sample({'conf': conf, 'deviation_bound': bound, 'iteration_sites': sites})
    part.results = {json.dumps(conf, sort_keys=True): [(n, h) for n, _c, h in base]}
    return part


# ---- real hash seeds ------------------------------------------------------------------------

CHILD = r'''
import json, sys
sys.dont_write_bytecode = True
sys.path.insert(0, %(verif)r); sys.path.insert(0, %(src)r)
from vf import core; core.import_guard()
from vf.checks import c08
out = {"orders": [], "results": {}}
for rev in (False, True):
    for conf in list(c08.configurations()) + list(c08.big_configurations()):
        names = [n for sel in conf["psel"] + conf["rsel"] if not isinstance(sel, str) for n in sel]
        s = set()
        for n in (reversed(names) if rev else names): s.add(n)
        out["orders"].append("".join(list(s)))
        files = c08.run_build(conf, reverse=rev, controlled=False)
        out["results"].setdefault(json.dumps(conf, sort_keys=True), []).append([[n, h] for n, _c, h in files])
print(json.dumps(out))
'''


# ---- the process environment ----------------------------------------------------------------
# "regardless of ... the process it runs in": the environment answers a build could consult are put behind one seam
# (a child interpreter per answer) and every single deviation from the default answer is explored.

ENV_CHILD = r'''
import json, os, sys
sys.dont_write_bytecode = True
spec = json.loads(sys.argv[1])
if spec.get("clock"):
    import time, datetime
    t0 = float(spec["clock"])
    time.time = lambda: t0
    time.time_ns = lambda: int(t0 * 1e9)
    time.localtime = lambda *a, _f=time.localtime: _f(t0)
    time.gmtime = lambda *a, _f=time.gmtime: _f(t0)
    class _DT(datetime.datetime):
        @classmethod
        def now(cls, tz=None): return cls.fromtimestamp(t0, tz)
        @classmethod
        def utcnow(cls): return cls.utcfromtimestamp(t0)
        @classmethod
        def today(cls): return cls.fromtimestamp(t0)
    class _D(datetime.date):
        @classmethod
        def today(cls): return cls.fromtimestamp(t0)
    datetime.datetime, datetime.date = _DT, _D
if spec.get("umask") is not None:
    os.umask(spec["umask"])
sys.argv = [spec.get("argv0", "-c")]
sys.path.insert(0, %(verif)r); sys.path.insert(0, %(src)r)
from vf import core; core.import_guard()
from vf.checks import c08
out = {}
confs = list(c08.configurations())
if spec.get("prebuild"):
    # an earlier, unrelated build in the same process (history of the process)
    c08.run_build(confs[spec["confs"][-1]], controlled=False)
if spec.get("indent"):
    # "it is a valid use case to override the constant" (text_gen.fetch_default_indent_nr_spaces)
    from dznpy import text_gen
    text_gen.DEFAULT_INDENT_NR_SPACES = spec["indent"]
for idx in spec["confs"]:
    conf = confs[idx]
    files = c08.run_build(conf, controlled=False)
    out[json.dumps(conf, sort_keys=True)] = [[n, h] for n, _c, h in files]
print(json.dumps(out))
'''

ENV_ANSWERS = [
    ('default', {}),
    # what the name of the Dezyne source file denotes in the working directory of the process
    ('cwd:regular-file', {'cwd': 'regular'}), ('cwd:symlink-to-other-name', {'cwd': 'symlink'}),
    ('cwd:dangling-symlink', {'cwd': 'dangling'}), ('cwd:directory', {'cwd': 'directory'}),
    ('cwd:is-a-symlinked-directory', {'cwd': 'linked-dir'}), ('cwd:read-only', {'cwd': 'readonly'}),
    # environment variables
    ('env:LANG=C', {'env': {'LANG': 'C', 'LC_ALL': 'C'}}), ('env:LANG=tr_TR', {'env': {'LANG': 'tr_TR.UTF-8', 'LC_ALL': 'tr_TR.UTF-8'}}),
    ('env:PYTHONUTF8=0', {'env': {'PYTHONUTF8': '0', 'LC_ALL': 'POSIX'}}), ('env:PYTHONIOENCODING', {'env': {'PYTHONIOENCODING': 'latin-1'}}),
    ('env:HOME+USER', {'env': {'HOME': '/nonexistent', 'USER': 'somebody', 'LOGNAME': 'somebody', 'USERNAME': 'somebody'}}),
    ('env:empty', {'env': None}), ('env:TZ', {'env': {'TZ': 'Pacific/Kiritimati'}}),
    ('env:SOURCE_DATE_EPOCH', {'env': {'SOURCE_DATE_EPOCH': '0'}}), ('env:COLUMNS', {'env': {'COLUMNS': '20', 'LINES': '5'}}),
    ('env:TMPDIR', {'env': {'TMPDIR': '/nonexistent', 'TEMP': '/nonexistent'}}), ('env:PYTHONOPTIMIZE', {'env': {'PYTHONOPTIMIZE': '2'}}),
    ('env:DZN', {'env': {'DZN': '/x', 'DZNPY': '1', 'DEBUG': '1', 'CI': 'true', 'NO_COLOR': '1'}}),
    # the documented module-level override of the indentation width, and the history of the process: a build made
    # after the override equals the build of a fresh process that starts with the override (ref = the answer compared to)
    ('indent:2', {'indent': 2, 'base': True}), ('indent:8', {'indent': 8, 'base': True}),
    ('history:earlier-build', {'prebuild': True}),
    ('history:earlier-build-then-indent:2', {'prebuild': True, 'indent': 2, 'ref': 'indent:2'}),
    ('history:earlier-build-then-indent:8', {'prebuild': True, 'indent': 8, 'ref': 'indent:8'}),
    # clock, file mode mask, program name
    ('clock:epoch', {'clock': 1.0}), ('clock:2038', {'clock': 2147483647.0}), ('clock:leap-day', {'clock': 1709210096.0}),
    ('umask:000', {'umask': 0}), ('umask:777', {'umask': 0o777}), ('argv0', {'argv0': '/usr/bin/dzn-shellgen.py'}),
]


def env_child(answer, conf_indices):
    import shutil  # pylint: disable=import-outside-toplevel
    import tempfile  # pylint: disable=import-outside-toplevel
    name, spec = answer
    spec = dict(spec, confs=conf_indices)
    top = tempfile.mkdtemp(prefix='vf_c08_env_')
    try:
        cwd = os.path.join(top, 'work')
        os.mkdir(cwd)
        kind = spec.get('cwd')
        target = os.path.join(cwd, 'M.dzn')
        if kind == 'regular':
            with open(target, 'w', encoding='utf-8') as fh:
                fh.write('component X {}')
        elif kind == 'symlink':
            os.mkdir(os.path.join(cwd, 'cas'))
            with open(os.path.join(cwd, 'cas', '3f9a1c.blob'), 'w', encoding='utf-8') as fh:
                fh.write('component X {}')
            os.symlink(os.path.join('cas', '3f9a1c.blob'), target)
        elif kind == 'dangling':
            os.symlink('Nowhere.dzn', target)
        elif kind == 'directory':
            os.mkdir(target)
        elif kind == 'linked-dir':
            os.symlink(cwd, os.path.join(top, 'Other.dzn'))
            cwd = os.path.join(top, 'Other.dzn')
        elif kind == 'readonly':
            os.chmod(cwd, 0o555)
        if spec.get('env', {}) is None:
            env = {'PATH': os.environ.get('PATH', '')}
        else:
            env = dict(os.environ)
            env.update(spec.get('env', {}))
        for key in ('VF_REPO',):
            if key in os.environ:
                env[key] = os.environ[key]
        env['PYTHONHASHSEED'] = '0'
        code = ENV_CHILD % {'verif': VERIF, 'src': REPO_SRC}
        res = subprocess.run([sys.executable, '-c', code, json.dumps(spec)], env=env, cwd=cwd, capture_output=True,
                             text=True, timeout=600, check=False)
        if res.returncode != 0:
            return name, None, res.stderr[-600:]
        return name, json.loads(res.stdout.strip().splitlines()[-1]), ''
    finally:
        os.chmod(os.path.join(top, 'work'), 0o755)
        shutil.rmtree(top, ignore_errors=True)


def env_conf_indices(nconfs):
    return sorted({0, 2, nconfs // 2, nconfs - 1})


def work_env(job):
    answer, idxs = job
    return env_child(answer, idxs)


def judge_env(case):
    answer = [a for a in ENV_ANSWERS if a[0] == case['answer']][0]
    idxs = env_conf_indices(len(list(configurations())))
    refname = answer[1].get('ref', 'default')
    _n, ref, err0 = env_child([a for a in ENV_ANSWERS if a[0] == refname][0], idxs)
    _n, got, err = env_child(answer, idxs)
    if ref is None:
        raise HarnessError(f'default environment child failed: {err0}')
    if got is None:
        return [(f'environment-breaks-build:{case["answer"]}', err)]
    if got != ref:
        return [(f'environment-changes-output:{case["answer"]}', 'differs from the default environment')]
    return []


# ---- the content hash is the MD5 of the UTF-8 contents -----------------------------------------

HASH_PATTERNS = ['ascii', 'first-2byte', 'last-2byte', 'all-2byte', 'all-3byte', 'all-4byte', 'mixed', 'surrogate-free-bmp-end',
                 'crlf', 'cr', 'controls']


def hash_contents(pattern, length):
    if length == 0:
        return ''
    if pattern == 'ascii':
        return ('abcdefghij\n' * (length // 11 + 1))[:length]
    if pattern == 'first-2byte':
        return '\u00a9' + 'x' * (length - 1)
    if pattern == 'last-2byte':
        return 'x' * (length - 1) + '\u00e9'
    if pattern == 'all-2byte':
        return '\u00e9' * length
    if pattern == 'all-3byte':
        return '\u6f22' * length
    if pattern == 'all-4byte':
        return '\U0001f600' * length
    if pattern == 'crlf':
        return ('line\r\n' * (length // 6 + 1))[:length]
    if pattern == 'cr':
        return ('ab\rc\n\r' * (length // 6 + 1))[:length]
    if pattern == 'controls':
        return ('a\x00\x0c\x1a\t\x7f \n' * (length // 8 + 1))[:length]
    if pattern == 'mixed':
        return ('a\u00e9\u6f22\U0001f600\n' * (length // 5 + 1))[:length]
    return 'x' * (length - 1) + '\uffff'


def work_hash(job):
    """Every content length in [lo, hi) x every pattern of non-ASCII characters: reported hash == md5(utf-8)."""
    import hashlib  # pylint: disable=import-outside-toplevel
    from dznpy.text_gen import GeneratedContent  # pylint: disable=import-outside-toplevel
    lo, hi = job
    part = Partial()
    for length in range(lo, hi):
        for pattern in HASH_PATTERNS:
            text = hash_contents(pattern, length)
            part.evaluations += 1
            try:
                got = GeneratedContent('f.hh', text).hash
            except Exception as exc:  # pylint: disable=broad-except
                part.violation(f'content-hash-exception:{type(exc).__name__}', f'{pattern} length {length}: {exc!r}',
                               {'hash': True, 'pattern': pattern, 'length': length})
                continue
            if got != hashlib.md5(text.encode('utf-8')).hexdigest():
                part.violation(f'content-hash-is-not-md5-of-utf8:{pattern}',
                               f'{pattern} contents of {length} characters ({len(text.encode("utf-8"))} bytes): reported {got}',
                               {'hash': True, 'pattern': pattern, 'length': length})
    part.states = part.evaluations
    part.transitions = part.evaluations
    part.nontrivial = part.evaluations
    return part


def judge_hash(case):
    import hashlib  # pylint: disable=import-outside-toplevel
    from dznpy.text_gen import GeneratedContent  # pylint: disable=import-outside-toplevel
    text = hash_contents(case['pattern'], case['length'])
    if GeneratedContent('f.hh', text).hash != hashlib.md5(text.encode('utf-8')).hexdigest():
        return [(f'content-hash-is-not-md5-of-utf8:{case["pattern"]}', f'length {case["length"]}')]
    return []


def child_run(seed):
    env = dict(os.environ)
    env['PYTHONHASHSEED'] = str(seed)
    code = CHILD % {'verif': VERIF, 'src': REPO_SRC}
    res = subprocess.run([sys.executable, '-c', code], env=env, capture_output=True, text=True, timeout=600,
                         check=False)
    if res.returncode != 0:
        raise HarnessError(f'hash-seed child {seed} failed: {res.stderr[-800:]}')
    return json.loads(res.stdout.strip().splitlines()[-1])


def work_child(seed):
    return seed, child_run(seed)


def judge_child(case):
    if 'answer' in case:
        return judge_env(case)
    data = child_run(case['seed'])
    ref = child_run(0)
    key = json.dumps(case['conf'], sort_keys=True)
    if data['results'][key] != ref['results'][key] or data['results'][key][0] != data['results'][key][1]:
        return [('real-hash-seed-changes-output', f'seed {case["seed"]}')]
    return []


def explore(ctx):
    th = ctx.thorough
    confs = list(configurations())
    jobs = []
    for i, conf in enumerate(confs):
        bound = 2 if th else (2 if i in (2, len(confs) // 2) else 1)
        jobs.append((conf, bound))
    if th:
        jobs += [(confs[2], 3), (confs[len(confs) // 2], 3)]
    expected = {}
    for part in pmap(work, jobs):
        expected.update(getattr(part, 'results', {}))
        ctx.merge(part)
    # selections of 11..13 names: the reference is one uncontrolled in-process build
    for conf in big_configurations():
        expected[json.dumps(conf, sort_keys=True)] = [(n, h) for n, _c, h in run_build(conf, controlled=False)]
    # conformance of the seam with the real nondeterminism
    seeds = list(range(64 if th else 8))
    orders = set()
    nchild = 0
    for seed, data in pmap(work_child, seeds):
        for o in data['orders']:
            orders.add(o)
        for key, runs in data['results'].items():
            for rev, got in enumerate(runs):
                nchild += 1
                want = [[n, h] for n, h in expected[key]]
                if got != want:
                    diff = [a[0] for a, b in zip(want, got) if a != b]
                    ctx.violation(f'real-hash-seed-changes-output:{diff[0].split(".")[-1] if diff else "?"}',
                                  f'PYTHONHASHSEED={seed} insertion {"reversed" if rev else "forward"}: files {diff} '
                                  f'differ from the explored output | conf={key}',
                                  {'child': True, 'seed': seed, 'conf': json.loads(key)})
    # hash law on synthetic contents: every length up to a bound that covers the usual block sizes
    top = 66000 if th else 9000
    step = 500
    for part in pmap(work_hash, [(lo, min(lo + step, top)) for lo in range(0, top, step)]):
        ctx.merge(part)
    ctx.bounds_hash = top
    # every single deviation from the default environment answer
    idxs = env_conf_indices(len(confs))
    nenv = 0
    env_results = list(pmap(work_env, [(a, idxs) for a in ENV_ANSWERS]))
    by_name = {name: got for name, got, _e in env_results}
    spec_of = dict(ENV_ANSWERS)
    for name, got, err in env_results:
        nenv += 1
        if got is None:
            if name == 'default':
                raise HarnessError(f'default environment child failed: {err}')
            ctx.violation(f'environment-breaks-build:{name}', f'environment answer {name}: the build fails: {err}',
                          {'child': True, 'answer': name})
            continue
        if spec_of[name].get('base'):
            if all(files == [[n, h] for n, h in expected[key]] for key, files in got.items()):
                raise HarnessError(f'vacuous: the override {name} does not change any output')
            continue
        for key, files in got.items():
            nchild += 1
            want = [[n, h] for n, h in expected[key]]
            if spec_of[name].get('ref'):
                if by_name[spec_of[name]['ref']] is None:
                    break
                want = by_name[spec_of[name]['ref']][key]
            if files != want:
                diff = [f'{b[0]} (expected {a[0]})' if a[0] != b[0] else a[0] for a, b in zip(want, files) if a != b]
                ctx.violation(f'environment-changes-output:{name}',
                              f'environment answer {name}: files {diff} differ from the explored output | conf={key}',
                              {'child': True, 'answer': name})
    ctx.extra['environment_answers'] = nenv
    ctx.evaluations += nchild
    ctx.extra['hash_seed_child_builds'] = nchild
    ctx.extra['real_iteration_orders_observed'] = len(orders)
    if len(orders) < len(confs) + 1:
        # every configuration has its own name string; more orders than configurations means that at
        # least one name set was really iterated in two different orders
        raise HarnessError('vacuous: the real hash seeds did not produce two different iteration orders')
    ctx.rule = ('for every configuration: all sequences of set-iteration permutations with at most d non-identity '
                'choices (stateless DFS over choice prefixes), each executed as a real build; states = executions; '
                'non-trivial = executions with at least one non-identity permutation; plus child interpreters per '
                'PYTHONHASHSEED x insertion order compared with the explored output; plus one child interpreter per single '
                'deviation from the default environment answer (what the source file name denotes in the working '
                'directory, environment variables, clock, umask, program name)')
    ctx.bounds = {'deviation_bound': '2 (3 on two configurations)' if th else '1 (2 on two configurations)',
                  'hash_seeds': len(seeds), 'configurations': len(confs),
                  'content_hash_lengths': f'0..{ctx.bounds_hash - 1} characters x {len(HASH_PATTERNS)} non-ASCII patterns'}
    ctx.assumptions += ['only iteration over sets of port names is a source of nondeterminism in a build (dicts keep '
                        'insertion order; no clock, randomness or environment is read) - validated by the real '
                        'PYTHONHASHSEED runs, which must reproduce the explored output exactly']
    ctx.min_outcomes = 1
