"""C08 - output is a pure function of model and configuration.

Space : configurations whose selections name 2-3 ports on either side (every accepted shape),
        multi-client on/off, both facility origins. Nondeterminism is owned through a seam: all
        name sets are ControlledSet objects (user sets; `set` injected into dznpy.ast_view's
        globals; derived sets stay controlled), so every iteration over a set of port names is a
        choice point whose permutation the explorer picks. Stateless DFS over all choice sequences
        with deviation bound d (number of non-identity permutations): d<=1 quick (d<=2 on two
        configurations), d<=2 thorough (d<=3 on two configurations).
Oracle: names, contents and .hash of all eight files byte-identical to the identity-order run;
        hash == md5(utf-8 contents) computed here.
Conformance of the seam: the same builds in child interpreters with PYTHONHASHSEED 0..7 / 0..63 and
        both insertion orders must (a) show at least two different real iteration orders and
        (b) produce exactly the explored output.
"""
import hashlib
import itertools
import json
import os
import subprocess
import sys

from ..core import Partial, pmap, HarnessError, VERIF, REPO_SRC
from .. import build as B

PID = 'C08'


class Controller:
    def __init__(self, prefix):
        self.prefix = list(prefix)
        self.points = []      # (noptions, site)
        self.choices = []

    def choose(self, noptions, site):
        i = len(self.points)
        idx = 0
        if i < len(self.prefix):
            idx = self.prefix[i]
            if idx >= noptions:
                raise HarnessError(f'replay divergence at choice {i}: {idx} >= {noptions}')
        self.points.append((noptions, site))
        self.choices.append(idx)
        return idx


_CTL = [None]


def _nth_permutation(items, idx):
    items = list(items)
    out = []
    fact = [1] * (len(items) + 1)
    for i in range(1, len(items) + 1):
        fact[i] = fact[i - 1] * i
    for i in range(len(items), 0, -1):
        pos, idx = divmod(idx, fact[i - 1])
        out.append(items.pop(pos))
    return out


class ControlledSet(set):
    """A set whose iteration order is an explicit choice of the explorer."""

    def __iter__(self):
        items = sorted(set.__iter__(self))
        ctl = _CTL[0]
        if ctl is None or len(items) < 2:
            return iter(items)
        frame = sys._getframe(1)  # pylint: disable=protected-access
        site = f'{os.path.basename(frame.f_code.co_filename)}:{frame.f_code.co_name}'
        nperm = 1
        for i in range(2, len(items) + 1):
            nperm *= i
        return iter(_nth_permutation(items, ctl.choose(nperm, site)))

    def _wrap(self, res):
        return ControlledSet(res) if isinstance(res, (set, frozenset)) else res

    def __or__(self, other):
        return self._wrap(set.__or__(set(set.__iter__(self)), set(_raw(other))))

    def __ror__(self, other):
        return self._wrap(set(_raw(other)) | set(set.__iter__(self)))

    def __and__(self, other):
        return self._wrap(set(set.__iter__(self)) & set(_raw(other)))

    def __rand__(self, other):
        return self.__and__(other)

    def __sub__(self, other):
        return self._wrap(set(set.__iter__(self)) - set(_raw(other)))

    def __rsub__(self, other):
        return self._wrap(set(_raw(other)) - set(set.__iter__(self)))

    def __xor__(self, other):
        return self._wrap(set(set.__iter__(self)) ^ set(_raw(other)))

    def __rxor__(self, other):
        return self.__xor__(other)

    def union(self, *others):
        res = set(set.__iter__(self))
        for o in others:
            res |= set(_raw(o))
        return ControlledSet(res)

    def intersection(self, *others):
        res = set(set.__iter__(self))
        for o in others:
            res &= set(_raw(o))
        return ControlledSet(res)

    def difference(self, *others):
        res = set(set.__iter__(self))
        for o in others:
            res -= set(_raw(o))
        return ControlledSet(res)

    def copy(self):
        return ControlledSet(set.__iter__(self))


def _raw(obj):
    if isinstance(obj, ControlledSet):
        return set.__iter__(obj)
    return obj


# ---------------------------------------------------------------------------------------------

def mini_model(prov, req, inj, mc):
    # several same-direction formals per event: anything that collects formal names in a set shows up in the
    # real hash-seed runs
    fin = [['alpha', ['T'], 'in'], ['beta', ['T'], 'in'], ['gamma', ['T'], 'in'], ['delta', ['T'], 'out']]
    events = [['Claim', 'in', ['Res'], fin[:2]], ['Release', 'in', ['void'], fin[1:3]], ['Ev', 'in', ['void'], fin],
              ['Ov', 'out', ['void'], fin[:3]], ['Ow', 'out', ['void'], [fin[2], fin[0]]]]
    ports = [[n, ['I'], 'provides', False] for n in prov] + [[n, ['I'], 'requires', False] for n in req] + \
            [[n, ['I'], 'requires', True] for n in inj]
    doc = [['extern', 'T', 'int'],
           ['ns', ['N'], [['interface', 'I', [['enum', 'Res', ['Ok', 'No']]], events],
                          ['component', 'Comp', ports]]]]
    return {'doc': doc, 'encapsulee': ['N', 'Comp'], 'file': 'M.dzn'}


PROV_OPTS = [(['hal', 'hal2'], ['NONE', 'ALL']), (['hal', 'hal2'], ['ALL', 'NONE']),
             (['hal', 'hal2'], ['NONE', ['hal', 'hal2']]), (['a', 'bb', 'ccc'], [['a', 'bb', 'ccc'], 'NONE']),
             (['a', 'bb', 'ccc'], ['NONE', ['ccc', 'a', 'bb']]), (['pX', 'Px'], ['NONE', ['pX', 'Px']])]
REQ_OPTS = [(['x', 'y', 'z'], [['x', 'y'], 'REMAINING']), (['x', 'y', 'z'], ['REMAINING', ['x', 'y']]),
            (['x', 'y', 'z'], [['x'], ['y', 'z']]), (['x', 'y', 'z'], [['x', 'y', 'z'], 'NONE']),
            (['r1', 'r2'], ['NONE', ['r1', 'r2']]), (['r1', 'r2'], ['NONE', 'ALL']),
            # names that are equal under case folding / differ only in length: tie-breaking of "clever" sort keys
            (['aB', 'Ab', 'ab_'], [['aB', 'Ab'], 'REMAINING']), (['aB', 'Ab', 'ab_'], ['NONE', ['Ab', 'ab_', 'aB']])]


def configurations():
    for (prov, psel), (req, rsel), mc, fac in itertools.product(PROV_OPTS, REQ_OPTS, (False, True),
                                                               ('create', 'import')):
        if mc and psel[1] == 'NONE':
            continue   # multi-client needs an MTS provides port
        if fac == 'import' and (mc or prov[0] != 'hal'):
            continue   # the origin does not interact with name sets: vary it on a subset only
        yield {'prov': prov, 'req': req, 'inj': ['inj'], 'psel': psel, 'rsel': rsel, 'mc': mc, 'fac': fac}


def mk_select(sel, reverse=False, controlled=True):
    from dznpy.adv_shell import PortSelect, PortWildcard  # pylint: disable=import-outside-toplevel
    if isinstance(sel, str):
        return PortSelect(PortWildcard[sel])
    names = list(reversed(sel)) if reverse else list(sel)
    if controlled:
        return PortSelect(ControlledSet(names))
    val = set()
    for n in names:
        val.add(n)
    return PortSelect(val)


def run_build(conf, reverse=False, controlled=True):
    from dznpy.adv_shell import Builder, PortsCfg, PortsSemanticsCfg, MultiClientPortCfg  # pylint: disable=import-outside-toplevel
    from dznpy.scoping import ns_ids_t  # pylint: disable=import-outside-toplevel
    model = mini_model(conf['prov'], conf['req'], conf['inj'], conf['mc'])
    fct = B.parse_model(model)
    mcfg = MultiClientPortCfg(conf['prov'][0], 'Claim', ns_ids_t('Ok'), 'Release') if conf['mc'] else None
    pcfg = PortsCfg(provides=PortsSemanticsCfg(sts=mk_select(conf['psel'][0], reverse, controlled),
                                               mts=mk_select(conf['psel'][1], reverse, controlled)),
                    requires=PortsSemanticsCfg(sts=mk_select(conf['rsel'][0], reverse, controlled),
                                               mts=mk_select(conf['rsel'][1], reverse, controlled)),
                    multiclient=mcfg)
    cfg = B.mk_configuration(model, {'fac': conf['fac'], 'copyright': '(c) x', 'creator': 'me'}, fct, pcfg)
    res = Builder().build(cfg)
    return [(f.filename, f.contents, f.hash) for f in res.files]


def controlled_run(conf, prefix):
    import dznpy.ast_view as av  # pylint: disable=import-outside-toplevel
    ctl = Controller(prefix)
    _CTL[0] = ctl
    av.set = ControlledSet
    try:
        files = run_build(conf)
    finally:
        _CTL[0] = None
        if 'set' in vars(av):
            del av.set
    return files, ctl


def explore_conf(conf, bound, part, stop_after_first=True):
    """Stateless DFS with deviation bounding. Returns identity output."""
    # "the process it runs in": another configuration with the same file names is built first
    decoy = dict(conf, psel=['NONE', 'ALL'] if conf['psel'] != ['NONE', 'ALL'] else ['NONE', list(conf['prov'])],
                 mc=False)
    run_build(decoy, controlled=False)
    base_files, base_ctl = controlled_run(conf, [])
    part.evaluations += 1
    for name, contents, hsh in base_files:
        if hashlib.md5(contents.encode('utf-8')).hexdigest() != hsh:
            part.violation(f'hash-not-md5:{name.split(".")[-1]}', f'{name}: reported {hsh}, md5 of the contents is '
                           f'{hashlib.md5(contents.encode("utf-8")).hexdigest()} (after an earlier build of another '
                           f'configuration in the same process) | conf={conf}', {'conf': conf, 'prefix': []})
    frontier = [([], base_ctl)]
    seen_sites = set()
    guilty = set()          # sites whose deviation alone (fewest deviations first) changes the output
    nexec = 1
    for _level in range(1, bound + 1):
        nxt = []
        for prefix, ctl in frontier:
            for i in range(len(prefix), len(ctl.points)):
                nopt, site = ctl.points[i]
                seen_sites.add(site)
                for alt in range(1, nopt):
                    new_prefix = ctl.choices[:i] + [alt]
                    files, ctl2 = controlled_run(conf, new_prefix)
                    nexec += 1
                    part.evaluations += 1
                    part.transitions += 1
                    nxt.append((new_prefix, ctl2))
                    if files == base_files:
                        part.outcome('identical')
                        continue
                    part.outcome('differs')
                    part.nviol += 1
                    dev_sites = [ctl2.points[j][1] for j, c in enumerate(new_prefix) if c != 0]
                    if any(s in guilty for s in dev_sites):
                        continue    # explained by a smaller counterexample
                    guilty.update(dev_sites)
                    diff = [a[0] for a, b in zip(base_files, files) if a != b] or ['<file list>']
                    part.violation(f'output-depends-on-set-order:{"+".join(dev_sites)}:{diff[0].split(".")[-1]}',
                                   f'choice sequence {new_prefix} (sites {dev_sites}) changes {diff} | conf={conf}',
                                   {'conf': conf, 'prefix': new_prefix})
        frontier = nxt
    part.extra['choice_points_per_build_max'] = max(part.extra.get('choice_points_per_build_max', 0),
                                                     len(base_ctl.points))
    part.states += nexec
    part.nontrivial += nexec - 1
    return base_files, sorted(seen_sites)


def judge(case):
    conf = case['conf']
    if case.get('child'):
        return judge_child(case)
    decoy = dict(conf, psel=['NONE', 'ALL'] if conf['psel'] != ['NONE', 'ALL'] else ['NONE', list(conf['prov'])],
                 mc=False)
    run_build(decoy, controlled=False)
    base, _ = controlled_run(conf, [])
    a, _ = controlled_run(conf, case['prefix'])
    b, _ = controlled_run(conf, case['prefix'])
    out = []
    if a != b:
        raise HarnessError('replay of a choice sequence is not deterministic')
    for name, contents, hsh in base:
        if hashlib.md5(contents.encode('utf-8')).hexdigest() != hsh:
            out.append((f'hash-not-md5:{name.split(".")[-1]}', hsh))
    if a != base:
        diff = [x[0] for x, y in zip(base, a) if x != y]
        out.append((case.get('key', 'output-depends-on-set-order'), f'prefix {case["prefix"]} changes {diff}'))
    return out


def work(job):
    conf, bound = job
    part = Partial()
    base, sites = explore_conf(conf, bound, part)
    part.extra['configurations'] = 1
    part.sample({'conf': conf, 'deviation_bound': bound, 'iteration_sites': sites})
    part.results = {json.dumps(conf, sort_keys=True): [(n, h) for n, _c, h in base]}
    return part


# ---- real hash seeds ------------------------------------------------------------------------

CHILD = r'''
import json, sys
sys.dont_write_bytecode = True
sys.path.insert(0, %(verif)r); sys.path.insert(0, %(src)r)
from vf import core; core.import_guard()
from vf.checks import c08
out = {"orders": [], "results": {}}
for rev in (False, True):
    for conf in c08.configurations():
        names = [n for sel in conf["psel"] + conf["rsel"] if not isinstance(sel, str) for n in sel]
        s = set()
        for n in (reversed(names) if rev else names): s.add(n)
        out["orders"].append("".join(list(s)))
        files = c08.run_build(conf, reverse=rev, controlled=False)
        out["results"].setdefault(json.dumps(conf, sort_keys=True), []).append([[n, h] for n, _c, h in files])
print(json.dumps(out))
'''


def child_run(seed):
    env = dict(os.environ)
    env['PYTHONHASHSEED'] = str(seed)
    code = CHILD % {'verif': VERIF, 'src': REPO_SRC}
    res = subprocess.run([sys.executable, '-c', code], env=env, capture_output=True, text=True, timeout=600,
                         check=False)
    if res.returncode != 0:
        raise HarnessError(f'hash-seed child {seed} failed: {res.stderr[-800:]}')
    return json.loads(res.stdout.strip().splitlines()[-1])


def work_child(seed):
    return seed, child_run(seed)


def judge_child(case):
    data = child_run(case['seed'])
    ref = child_run(0)
    key = json.dumps(case['conf'], sort_keys=True)
    if data['results'][key] != ref['results'][key] or data['results'][key][0] != data['results'][key][1]:
        return [('real-hash-seed-changes-output', f'seed {case["seed"]}')]
    return []


def explore(ctx):
    th = ctx.thorough
    confs = list(configurations())
    jobs = []
    for i, conf in enumerate(confs):
        bound = 2 if th else (2 if i in (2, len(confs) // 2) else 1)
        jobs.append((conf, bound))
    if th:
        jobs += [(confs[2], 3), (confs[len(confs) // 2], 3)]
    expected = {}
    for part in pmap(work, jobs):
        expected.update(getattr(part, 'results', {}))
        ctx.merge(part)
    # conformance of the seam with the real nondeterminism
    seeds = list(range(64 if th else 8))
    orders = set()
    nchild = 0
    for seed, data in pmap(work_child, seeds):
        for o in data['orders']:
            orders.add(o)
        for key, runs in data['results'].items():
            for rev, got in enumerate(runs):
                nchild += 1
                want = [[n, h] for n, h in expected[key]]
                if got != want:
                    diff = [a[0] for a, b in zip(want, got) if a != b]
                    ctx.violation(f'real-hash-seed-changes-output:{diff[0].split(".")[-1] if diff else "?"}',
                                  f'PYTHONHASHSEED={seed} insertion {"reversed" if rev else "forward"}: files {diff} '
                                  f'differ from the explored output | conf={key}',
                                  {'child': True, 'seed': seed, 'conf': json.loads(key)})
    ctx.evaluations += nchild
    ctx.extra['hash_seed_child_builds'] = nchild
    ctx.extra['real_iteration_orders_observed'] = len(orders)
    if len(orders) < len(confs) + 1:
        # every configuration has its own name string; more orders than configurations means that at
        # least one name set was really iterated in two different orders
        raise HarnessError('vacuous: the real hash seeds did not produce two different iteration orders')
    ctx.rule = ('for every configuration: all sequences of set-iteration permutations with at most d non-identity '
                'choices (stateless DFS over choice prefixes), each executed as a real build; states = executions; '
                'non-trivial = executions with at least one non-identity permutation; plus child interpreters per '
                'PYTHONHASHSEED x insertion order compared with the explored output')
    ctx.bounds = {'deviation_bound': '2 (3 on two configurations)' if th else '1 (2 on two configurations)',
                  'hash_seeds': len(seeds), 'configurations': len(confs)}
    ctx.assumptions += ['only iteration over sets of port names is a source of nondeterminism in a build (dicts keep '
                        'insertion order; no clock, randomness or environment is read) - validated by the real '
                        'PYTHONHASHSEED runs, which must reproduce the explored output exactly']
    ctx.min_outcomes = 1
