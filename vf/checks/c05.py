"""C05 - parsing preserves every declaration of the Dezyne JSON AST with correct names.

Space : (A) every document *shape* with <= N nodes (N=3 quick / 5 thorough) built by appending a
        node to the root or to an open namespace; node kinds = component, system, foreign,
        interface (with nested enum+subint+unknown type), enum, subint, extern, import, file-name,
        unknown class, non-dict junk, and namespaces named [A], [B], [A,B], [AB] (re-opening allowed);
        two naming sweeps: every declaration called X / every declaration with its own name.
        (B) payload space per kind: ports, events/formals, nested types, instances/bindings,
        ranges, fields, data values - exhaustive to the stated small bounds, at root and in ns [A,B].
Oracle: docgen.expected(doc) == docgen.unparse(FileContents)  (independent printers).
"""
import contextlib
import io
import itertools
import json

from ..core import Partial, pmap
from .. import docgen as D

PID = 'C05'

LEAF_KINDS = ['component', 'system', 'foreign', 'interface', 'enum', 'subint', 'extern', 'import',
              'filename', 'unknown', 'junk']
NS_NAMES = [['A'], ['B'], ['A', 'B'], ['AB']]    # 'AB': same text as A+B without a separator


def leaf_node(kind, name):
    if '.' in name:
        # a declaration with a multi-identifier name: everything that merely REFERS to a name uses its last identifier
        node = leaf_node(kind, name.rsplit('.', 1)[-1])
        if kind in ('component', 'system', 'foreign', 'interface', 'enum', 'subint', 'extern'):
            node[1] = name
        return node
    if kind == 'component':
        return ['component', name, [['p', [name], 'provides', False], ['r', ['A', name], 'requires', True]]]
    if kind == 'system':
        return ['system', name, [['p', [name], 'provides', False]], [['i', [name]]],
                [[['p', None], ['p', 'i']]]]
    if kind == 'foreign':
        return ['foreign', name, [['q', ['B', name], 'requires', False]]]
    if kind == 'interface':
        return ['interface', name, [['enum', name, ['F1', 'F2']], ['unknowntype', 'bool'],
                                    ['subint', name, 0, 1]],
                [['e', 'in', [name], [['a', [name], 'inout']]], ['o', 'out', ['void'], []]]]
    if kind == 'enum':
        return ['enum', name, ['F1', 'F2']]
    if kind == 'subint':
        return ['subint', name, -1, 3]
    if kind == 'extern':
        return ['extern', name, 'std::string']
    if kind == 'import':
        return ['import', name + '.dzn']
    if kind == 'filename':
        return ['filename', 'dir/' + name + '.dzn']
    if kind == 'unknown':
        return ['unknown', 'behavior']
    if kind == 'junk':
        return ['junk', 42]
    raise ValueError(kind)


ODD_NAMES = ['None', 'is', 'self', 'yield', 'class', 'type', 'A', 'AB', 'a', '_', '__init__', 'x1', 'X_', 'in_', 'Dzn']


def shape_to_doc(forest, own_names):
    """own_names: False = every declaration called X; True = N0, N1, ...; 'odd' = Python keywords / builtins,
    names of the namespaces themselves, case variants, underscores (cycling)"""
    counter = itertools.count()

    def conv(tree):
        label, kids = tree
        if kids is None:
            if own_names == 'dotted':
                # REPRESENTATION: declarations written with a multi-identifier name (P.N0 = N0 inside namespace P)
                k = next(counter)
                name = ['P.N%d', 'N%d', 'P.Q.N%d', 'A.N%d'][k % 4] % k
                if LEAF_KINDS[label] in ('import', 'filename', 'unknown', 'junk'):
                    name = 'N%d' % k
            elif own_names == 'odd':
                name = ODD_NAMES[next(counter) % len(ODD_NAMES)]
            else:
                name = f'N{next(counter)}' if own_names else 'X'
            return leaf_node(LEAF_KINDS[label], name)
        return ['ns', NS_NAMES[label], [conv(k) for k in kids]]

    return [conv(t) for t in forest]


# FAILURE PATHS: documents on which a parser instance fails - inside nested namespaces, with the parser's own error and with
# the identifier-validation error - before the SAME instance is given the document under test
FAILING_FIRST = {
    'after-refusal': [['ns', ['Q'], [['ns', ['R', 'S'], [['enum', 'Fine', ['F']],
                                                          ['junk', {'<class>': 'component', 'name': D.sn(['Broken'])}]]]]]],
    'after-bad-identifier': [['enum', 'Early', ['E']], ['ns', ['Q'], [['ns', ['R'], [
        ['junk', {'<class>': 'enum', 'name': D.sn(['Not-An-Identifier']), 'fields': []}]]]]]],
}
_REUSE = {}


def parse(doc_json_text, verbose=False):
    from dznpy.json_ast import DznJsonAst  # pylint: disable=import-outside-toplevel
    with contextlib.redirect_stdout(io.StringIO()):
        if verbose in FAILING_FIRST:
            import os  # pylint: disable=import-outside-toplevel
            import tempfile  # pylint: disable=import-outside-toplevel
            parser = DznJsonAst(json.dumps(D.to_json(FAILING_FIRST[verbose])))
            try:
                parser.process()
                raise AssertionError('the failing document was accepted')
            except AssertionError:
                raise
            except Exception as exc:  # pylint: disable=broad-except
                _REUSE['kept'] = exc          # the caller keeps the exception (and its traceback) alive
            if 'path' not in _REUSE or _REUSE.get('pid') != os.getpid():
                _REUSE['dir'] = tempfile.mkdtemp(prefix='vf_c05r_')
                _REUSE['path'] = os.path.join(_REUSE['dir'], 'doc.json')
                _REUSE['pid'] = os.getpid()
            with open(_REUSE['path'], 'w', encoding='utf-8') as fh:
                fh.write(doc_json_text)
            return parser.load_file(_REUSE['path']).process()
        if verbose == 'positional':
            return DznJsonAst(doc_json_text, True).process()       # REPRESENTATION: the flag given positionally
        return DznJsonAst(doc_json_text, verbose=verbose).process()


BOUNDARY_DOC = [['filename', 'Ger\u00e4t.dzn'], ['import', 'pr\u20acis/\U0001d11e.dzn'],
                ['ns', ['A'], [['extern', 'T', 'std::string /* \u00b5\u2126\U0001f600 */']]],
                ['interface', 'I', [['enum', 'E', ['On', 'Off']]], [['ev', 'in', ['void'], [['a', ['A', 'T'], 'in']]]]],
                ['component', 'C', [['p', ['I'], 'provides', False]]], ['filename', 'z\u00fc.dzn']]
BLOCKS = [512, 1024, 4096, 8192, 16384, 32768, 65536, 131072, 262144, 1 << 20]


def boundary_text(block, which, delta):
    """The document as raw UTF-8 (non-ASCII characters NOT escaped), padded with leading white space so that the
    which-th non-ASCII character has `delta` of its bytes before the byte offset `block` (it straddles the offset)."""
    raw = json.dumps(D.to_json(BOUNDARY_DOC), ensure_ascii=False).encode('utf-8')
    offs = [i for i, b in enumerate(raw) if b >= 0xC0]        # lead bytes of the multi-byte characters
    if which >= len(offs):
        return None
    lead = offs[which]
    size = 2 if raw[lead] < 0xE0 else (3 if raw[lead] < 0xF0 else 4)
    if not 0 < delta < size:
        return None
    pad = block - delta - lead
    if pad < 0:
        return None
    # white space before the root object and - for the big blocks - spread as indentation-like runs inside it
    return b' ' * (pad // 2) + b'\n' * (pad - pad // 2) + raw


def judge_boundary(case):
    import os  # pylint: disable=import-outside-toplevel
    import tempfile  # pylint: disable=import-outside-toplevel
    from dznpy.json_ast import DznJsonAst  # pylint: disable=import-outside-toplevel
    data = boundary_text(case['block'], case['which'], case['delta'])
    want = D.expected(BOUNDARY_DOC)
    out = []
    tmp = tempfile.mkdtemp(prefix='vf_c05_')
    try:
        path = os.path.join(tmp, 'doc.json')
        with open(path, 'wb') as fh:
            fh.write(data)
        for route in ('load_file', 'bytes', 'str'):
            try:
                with contextlib.redirect_stdout(io.StringIO()):
                    if route == 'load_file':
                        fct = DznJsonAst().load_file(path).process()
                    elif route == 'bytes':
                        fct = DznJsonAst(data).process()
                    else:
                        fct = DznJsonAst(data.decode('utf-8')).process()
                cont, what = D.first_difference(want, D.unparse(fct))
                if cont:
                    out.append((f'boundary:{route}:mismatch:{cont}', f'{what} | {case}'))
            except Exception as exc:  # pylint: disable=broad-except
                out.append((f'boundary:{route}:exception:{type(exc).__name__}', f'{exc!r} | {case}'))
    finally:
        import shutil  # pylint: disable=import-outside-toplevel
        shutil.rmtree(tmp, ignore_errors=True)
    return out


def judge(case):
    if 'block' in case:
        return judge_boundary(case)
    doc = case['doc']
    out = []
    try:
        text = json.dumps(D.to_json(doc, case.get('comment'), case.get('form')))
        fct = parse(text, case.get('verbose') or False)
        want, got = D.expected(doc), D.unparse(fct)
        cont, what = D.first_difference(want, got)
        if cont:
            out.append((f'mismatch:{cont}', f'{what} | doc={json.dumps(doc)[:600]}'))
    except Exception as exc:  # pylint: disable=broad-except
        out.append((f'exception:{type(exc).__name__}', f'{exc!r} | doc={json.dumps(doc)[:600]}'))
    return out


def cleanup_reuse():
    if 'dir' in _REUSE:
        import shutil  # pylint: disable=import-outside-toplevel
        shutil.rmtree(_REUSE.pop('dir'), ignore_errors=True)
        _REUSE.clear()


def payload_docs():
    """(B) payload space."""
    # ports
    port_opts = [[typ, d, inj] for typ in (['I'], ['A', 'I']) for d in ('provides', 'requires')
                 for inj in (False, True)]
    for n in range(0, 3):
        for combo in itertools.product(port_opts, repeat=n):
            ports = [[f'p{i}', c[0], c[1], c[2]] for i, c in enumerate(combo)]
            yield [['component', 'C', ports]]
            yield [['foreign', 'C', ports]]
            yield [['system', 'C', ports, [], []]]
    # two declarations whose ports agree in name and written type and differ in ONE attribute (direction, injected)
    for a, b in itertools.product(port_opts, repeat=2):
        for k1, k2 in (('component', 'component'), ('component', 'foreign'), ('system', 'component')):
            def decl(kind, nm, opt):
                ports = [['p', opt[0], opt[1], opt[2]]]
                return [kind, nm, ports] if kind != 'system' else ['system', nm, ports, [], []]
            yield [decl(k1, 'C1', a), decl(k2, 'C2', b)]
    # events
    dirs = ('in', 'out', 'inout')
    in_formals = [list(c) for n in range(0, 3) for c in itertools.product(dirs, repeat=n)]
    out_formals = [list(c) for n in range(0, 3) for c in itertools.product(('in', 'inout'), repeat=n)]
    ev_opts = [['in', ret, fm] for ret in (['void'], ['bool'], ['N', 'E']) for fm in in_formals] + \
              [['out', ['void'], fm] for fm in out_formals]
    for n in range(0, 3):
        for combo in itertools.product(ev_opts, repeat=n):
            events = [[f'e{i}', c[0], c[1], [[f'a{j}', ['T'] if j == 0 else ['A', 'T'], fd]
                                              for j, fd in enumerate(c[2])]] for i, c in enumerate(combo)]
            yield [['interface', 'I', [], events]]
    # nested types
    type_opts = [['enum', 'E', ['A', 'B']], ['subint', 'S', 0, 9], ['unknowntype', 'extern']]
    for n in range(0, 3):
        for combo in itertools.product(type_opts, repeat=n):
            types = [list(t) for t in combo]
            for i, t in enumerate(types):
                if t[0] != 'unknowntype':
                    t[1] = t[1] + str(i)
            yield [['interface', 'I', types, [['e', 'in', ['void'], []]]]]
    # instances / bindings
    ends = [['p', None], ['p', 'i'], ['*', None]]       # '*': the wildcard end-point of an injection binding
    bind_opts = [[a, b] for a in ends for b in ends]
    for ni in range(0, 3):
        for nb in range(0, 3):
            for combo in itertools.product(bind_opts, repeat=nb):
                yield [['system', 'S', [], [[f'i{k}', ['A', 'C'] if k else ['C']] for k in range(ni)],
                        [list(b) for b in combo]]]
    # longer lists of every repeated element (3..6 of them, cycling through the variants above)
    def cyc(opts, n, shift=0):
        return [opts[(i * 5 + shift) % len(opts)] for i in range(n)]
    for n in range(3, 7):
        ports = [[f'p{i}', c[0], c[1], c[2]] for i, c in enumerate(cyc(port_opts, n))]
        yield [['component', 'C', ports]]
        yield [['foreign', 'C', list(reversed(ports))]]
        yield [['system', 'C', ports, [[f'i{k}', ['A', 'C'] if k % 2 else ['C']] for k in range(n)],
                [list(b) for b in cyc(bind_opts, n)]]]
        events = [[f'e{i}', c[0], c[1], [[f'a{j}', ['T'] if j == 0 else ['A', 'T'], fd] for j, fd in enumerate(c[2])]]
                  for i, c in enumerate(cyc(ev_opts, n, 3))]
        yield [['interface', 'I', [], events]]
        yield [['interface', 'I', [], [['e', 'in', ['void'], [[f'a{j}', ['T'], dirs[(j * 2) % 3]] for j in range(n)]],
                                       ['o', 'out', ['void'], [[f'a{j}', ['T'], 'in'] for j in range(n)]]]]]
        types = [['enum', f'E{i}', ['A', 'B'][:1 + i % 2]] if i % 2 == 0 else ['subint', f'S{i}', -i, i] for i in range(n)]
        yield [['interface', 'I', types, [['e', 'in', ['E0'], []]]]]
        yield [['enum', 'E', [f'F{i}' for i in range(n + 1)]]]
        yield [['ns', ['A', 'B', 'C', 'D', 'E', 'F'][:n], [['enum', 'E', ['A']]]]]
        nested = [['enum', 'E', ['A']]]
        for ident in reversed(['A', 'B', 'C', 'D', 'E', 'F'][:n]):
            nested = [['ns', [ident], nested + [['extern', 'T' + ident, 'int']]]]
        yield nested
    # ranges, fields, data
    for lo, hi in itertools.product((-2, 0, 3), repeat=2):
        yield [['subint', 'S', lo, hi]]
    # EDGES of the integer domain: bounds that a double cannot hold exactly, the 64-bit limits
    big = [2 ** 53 - 1, 2 ** 53, 2 ** 53 + 1, 2 ** 53 + 2, 1234567890123456789, 2 ** 63 - 1, 2 ** 63, 2 ** 64 - 1, 10 ** 15 + 1]
    for val in big:
        yield [['subint', 'S', 0, val]]
        if val < 2 ** 63:
            yield [['subint', 'S', -val, val]]
            yield [['subint', 'S', -val - 1, -1]] if val + 1 <= 2 ** 63 else [['subint', 'S', -val, -1]]
    for n in range(0, 4):
        yield [['enum', 'E', ['A', 'B', 'C'][:n]]]
    yield [['enum', 'E', ['A', 'A']]]
    for data in ('int', 'std::string', 'std::map<int, std::string>', ' x ', '', 'a\nb', '$T$'):
        yield [['extern', 'T', data]]
    for name in ('x.dzn', '', 'dir/x y.dzn', '../x',
                 # characters outside Latin-1, decomposed / compatibility forms that a Unicode normalisation would rewrite,
                 # an astral character, a very long name
                 'e\u0301.dzn', '\u212b.dzn', '\ufb01le.dzn', '\ud55c\uae00.dzn', '\U0001f600.dzn', '\u0130\u0131.dzn',
                 'A\u030a.dzn', 'x' * 300 + '.dzn'):
        yield [['import', name]]
        yield [['filename', name]]
        yield [['extern', 'T', name]]


def work(job):
    kind, idx, nslots, max_nodes = job
    part = Partial()
    k = 0
    if kind == 'forests':
        for forest in forests(max_nodes):
            k += 1
            if k % nslots != idx:
                continue
            nnodes = sum(1 for _ in _shape_nodes(forest))
            for own in (False, True) + (('odd', 'dotted') if nnodes <= 3 else ()):
                case = {'doc': shape_to_doc(forest, own)}
                _one(case, part)
                if nnodes <= 3 and own is True:
                    for form in ('reversed', 'extra', 'reversed+extra'):
                        _one(dict(case, form=form), part)
                if k % 50021 == 1:
                    part.sample(case)
    elif kind == 'boundary':
        # SIZE x ENCODING: every multi-byte character of a raw UTF-8 document straddling every usual buffer size
        for block in BLOCKS[:max_nodes]:
            for which in range(12):
                for delta in (1, 2, 3):
                    k += 1
                    if k % nslots != idx or boundary_text(block, which, delta) is None:
                        continue
                    case = {'block': block, 'which': which, 'delta': delta}
                    part.evaluations += 1
                    part.states += 1
                    part.transitions += 3
                    part.nontrivial += 1
                    part.outcome('boundary')
                    for key, what in judge_boundary(case):
                        part.violation(key, what, case)
    elif kind == 'payload':
        for doc in payload_docs():
            k += 1
            if k % nslots != idx:
                continue
            for wrap in (False, True):
                case = {'doc': [['ns', ['A', 'B'], doc]] if wrap else doc}
                if wrap:
                    case['comment'] = 'c'
                _one(case, part)
                _one(dict(case, verbose=True), part)
                _one(dict(case, verbose='positional'), part)
                if not wrap:
                    for form in FAILING_FIRST:
                        _one(dict(case, verbose=form), part)
                # REPRESENTATION: the same document with the keys of every object reversed / with extra keys
                for form in ('reversed', 'extra', 'reversed+extra'):
                    _one(dict(case, form=form), part)
                if k % 701 == 1:
                    part.sample(case)
    cleanup_reuse()
    return part


def _one(case, part):
    res = judge(case)
    part.evaluations += 1
    part.states += 1
    want = D.expected(case['doc'])
    ndecl = sum(len(v) for v in want.values())
    part.transitions += sum(1 for _ in _nodes(case['doc']))
    if ndecl:
        part.nontrivial += 1
    part.outcome(f'declarations={min(ndecl, 9)}')
    for key, what in res:
        part.violation(key, what, case)


def _shape_nodes(forest):
    for tree in forest:
        yield tree
        if tree[1] is not None:
            yield from _shape_nodes(tree[1])


def _nodes(doc):
    for node in doc:
        yield node
        if node[0] == 'ns':
            yield from _nodes(node[2])


def forests(max_nodes):
    """All ordered forests with 0..max_nodes nodes over the leaf kinds and namespace names."""
    nleaf, ninner = len(LEAF_KINDS), len(NS_NAMES)

    def forest_n(n):
        if n == 0:
            yield []
            return
        for first_size in range(1, n + 1):
            for first in tree_n(first_size):
                for rest in forest_n(n - first_size):
                    yield [first] + rest

    def tree_n(n):
        if n == 1:
            for lab in range(nleaf):
                yield (lab, None)
        for lab in range(ninner):
            for kids in forest_n(n - 1):
                yield (lab, kids)

    for size in range(0, max_nodes + 1):
        yield from forest_n(size)


def explore(ctx):
    max_nodes = 5 if ctx.thorough else 4
    nslots = 64 if ctx.thorough else 16
    jobs = [('forests', i, nslots, max_nodes) for i in range(nslots)] + \
           [('payload', i, 8, 0) for i in range(8)] + [('boundary', i, 8, len(BLOCKS) if ctx.thorough else 8) for i in range(8)]
    for part in pmap(work, jobs):
        ctx.merge(part)
    ctx.rule = (f'every document shape with <= {max_nodes} nodes (11 leaf kinds, namespaces [A],[B],[A,B],[AB], '
                'arbitrary nesting and re-opening) x 2 naming sweeps (3 up to 3 nodes: Python keywords / namespace names / case variants), plus the payload space per kind at root and '
                'inside namespace A.B; each shape generated exactly once; non-trivial = at least one declaration '
                'expected; transitions = node-append construction steps; plus a raw UTF-8 document (file, bytes, str) padded so '
                'that each of its multi-byte characters straddles each usual buffer size (512 B .. 256 KiB, thorough 1 MiB)')
    ctx.bounds = {'nodes': max_nodes, 'payload': 'every combination of ports<=2, events<=2, formals<=2, nested types<=2, '
                                                  'instances<=2, bindings<=2, fields<=3; lists of 3..6 elements with '
                                                  'cycling variants; namespace names and nesting of 3..6 identifiers; '
                                                  'each with and without verbose logging'}
    ctx.assumptions += ['documents are well-formed (malformed ones are C15)',
                        'oracle = independent printers in vf/docgen.py']
    ctx.min_outcomes = 4
