"""C19 - user text rendered as a comment can never become code.

Space : (A) Comment objects: every string of <=3 symbols over {a,space,tab,\\x1f}+11 line-break
        sequences, every hostile fragment, and every content tree of <=3 (quick) / 4 (thorough)
        nodes, as comment content (direct and inside a list);
        (B) generator level: 4 models x {copyright, creator_info} x all hostile strings, compared
        with a baseline build.
Oracle: (A) the rendered text split at the UNION of Python's and C++'s line terminators: every
        piece starts with '//' and equals '// ' + reference line (right-stripped allowed);
        comment.lines unchanged by rendering; rendering twice equal; append after rendering renders
        the extended comment. (B) the sequence of pieces not starting with '//' is identical to the
        baseline's in all eight files, and no comment line ending in a backslash is followed by code.
"""
import itertools

from ..core import Partial, pmap
from ..explore import ordered_trees
from ..refmodels import text as R
from .. import modelgen as M
from .. import build as B
from . import c17

PID = 'C19'

HOSTILE = ['*/', '/*', '*/ int x; /*', '#include <x>', 'a\\', '\\', 'a\\\nb', '  lead', 'x\n\n\ny', '\n', '\n\n',
           'a\rb', 'a\x0bb', 'a\x0cb', 'a\x1cb', 'a\x1db', 'a\x1eb', 'a\x85b', 'a\u2028b', 'a\u2029b', 'a\r\nb',
           '\rint x;', '\x0cint y;', ' #error boom', '//', '// x', '"', "'", '??/', '??/\nint z;', '\ta\t',
           'L' * 300, 'é ü', '}', '};', 'namespace x {', '#define X', '#endif', '\n#error x', ' ', '', 'a\n', '\na',
           'a \nb ', '/', '/\n/', '\\\n', '\\\\', 'a\\ ', 'line1\\\nint spliced;', '<::', '%:define Y',
           '// ok\nint leaked;', '//\nint leaked2;', '\n'.join(f'line {i}' for i in range(14)), 'x\n' * 9,
           '// This is generated content\nint z2;', 'Advanced Shell\nint z3;'] + \
          [('word ' * 400)[:n] for n in (78, 79, 80, 81, 98, 99, 100, 101, 118, 119, 120, 121, 156, 157, 158, 159, 160, 161,
                                          200, 254, 255, 256, 257, 1000, 4100)] + \
          ['x' * 70 + ' int folded_into_code;' + ' y' * 60, 'a' * 156 + ' b', ('1234567 ' * 30) + '\n' + ('abc ' * 50)]


def union_split(text):
    """Split at every Python or C++ line terminator (keeps empty pieces, drops one final empty)."""
    pieces, cur, i = [], '', 0
    while i < len(text):
        if text.startswith('\r\n', i):
            pieces.append(cur)
            cur = ''
            i += 2
        elif text[i] in R.SINGLE_BREAKS:
            pieces.append(cur)
            cur = ''
            i += 1
        else:
            cur += text[i]
            i += 1
    if cur != '':
        pieces.append(cur)
    return pieces


def render_ok(rendered, ref_options):
    """rendered: str(comment); ref_options: acceptable reference line lists."""
    pieces = union_split(rendered)
    for piece in pieces:
        if not piece.startswith('//'):
            return f'piece {piece!r} does not start with //'
    for opt in ref_options:
        if len(opt) != len(pieces):
            continue
        if all(p in (('// ' + line), ('// ' + line).rstrip()) for p, line in zip(pieces, opt)):
            return None
    return f'pieces {pieces!r} do not carry the text {sorted(ref_options)!r}'


class _Boom(Exception):
    pass


class _BaseBoom(BaseException):
    pass


class _Poison:
    def __init__(self, exc):
        self.exc = exc

    def __str__(self):
        raise self.exc('poisoned item')


def judge(case):
    R.FORM[0] = case.get('form')
    try:
        return _judge(case)
    finally:
        R.FORM[0] = None


def _judge(case):
    if case['kind'] == 'gen':
        return judge_gen(case)
    from dznpy.cpp_gen import Comment  # pylint: disable=import-outside-toplevel
    from dznpy.text_gen import TextBlock  # pylint: disable=import-outside-toplevel
    enc = case['enc']
    out = []

    def bad(key, what):
        out.append((key, f'{what} | content={enc!r}'))

    try:
        opts = R.ref_lines(enc)
        cmt = Comment(R.build(enc, TextBlock))
        before = list(cmt.lines)
        if tuple(before) not in opts:
            bad('comment-lines', f'{before!r}')
        first = str(cmt)
        if list(cmt.lines) != before:
            bad('rendering-changed-comment', f'before={before!r} after={cmt.lines!r}')
        err = render_ok(first, {tuple(before)})
        if err and before:
            bad('render', err)
        if not before and first != '':
            bad('render-empty', repr(first))
        second = str(cmt)
        if second != first:
            bad('render-twice-differs', f'{first!r} vs {second!r}')
        cmt.append('tail\nmore')
        third = str(cmt)
        err = render_ok(third, {tuple(before) + ('tail', 'more')})
        if err:
            bad('render-after-append', err)
        # other ROUTES by which the same text can get into a comment: += / append of the value itself, of a flat list
        # holding it, of a one-key dict holding it - onto a comment that already has a first line
        if isinstance(enc, dict) and 's' in enc:
            for route in ('iadd-value', 'iadd-flat-list', 'append-flat-list', 'iadd-dict', 'iadd-list-in-list'):
                c3 = Comment('first')
                val = R.build(enc, TextBlock)
                if route == 'iadd-value':
                    c3 += val
                elif route == 'iadd-flat-list':
                    c3 += [val, 'last']
                elif route == 'append-flat-list':
                    c3.append([val, 'last'])
                elif route == 'iadd-dict':
                    c3 += {'k': val}
                else:
                    c3 += [[val], 'last']
                tail_ = ('last',) if route in ('iadd-flat-list', 'append-flat-list', 'iadd-list-in-list') else ()
                err = render_ok(str(c3), {('first',) + o + tail_ for o in opts})
                if err:
                    bad(f'render-after-{route}', err)
        # a (deep) copy of a comment is a comment: it renders the same text, before and after extension
        import copy  # pylint: disable=import-outside-toplevel
        for how in ('deepcopy', 'copy', 'deepcopy-in-container'):
            src_c = Comment(R.build(enc, TextBlock))
            if how == 'deepcopy':
                dup = copy.deepcopy(src_c)
            elif how == 'copy':
                dup = copy.copy(src_c)
            else:
                dup = copy.deepcopy({'k': [src_c]})['k'][0]
            if str(dup) != str(src_c):
                bad(f'{how}-renders-differently', f'{str(dup)!r} vs {str(src_c)!r}')
            if how != 'copy':
                dup.append('extra')
                err = render_ok(str(dup), {tuple(before) + ('extra',)})
                if err:
                    bad(f'{how}-extended-renders-wrong', err)
                if list(src_c.lines) != before:
                    bad(f'{how}-shares-lines-with-original', f'{src_c.lines!r}')
        # render, change the comment through every mutator, render again: the new text must show
        for how in ('trim', 'lines-setter', 'lines-extend', 'iadd', 'set_indentor', 'indent', 'indent-append',
                    'indent-iadd', 'indent-lines-extend', 'indent-twice-append'):
            cm2 = Comment(R.build(enc, TextBlock))
            str(cm2)
            if how.startswith('indent'):
                # indent() applied IN PLACE (the lines themselves get the comment prefix), then extended
                cm2.indent()
                if how == 'indent-twice-append':
                    cm2.indent()
                if how.endswith('append'):
                    cm2.append('after indent\n\nlast')
                elif how == 'indent-iadd':
                    cm2 += ['after indent', '']
                elif how == 'indent-lines-extend':
                    cm2.lines.extend(['after indent'])
            elif how == 'trim':
                cm2.trim()
                want = None if R.trim_ok(before, cm2.lines) else 'bad-trim'
            elif how == 'lines-setter':
                cm2.lines = ['replaced', 'text']
            elif how == 'lines-extend':
                cm2.lines.extend(['more'])
            elif how == 'iadd':
                cm2 += ['plus', '']
            else:
                cm2.set_indentor(cm2._indentizer)  # pylint: disable=protected-access
            now = list(cm2.lines)
            err = render_ok(str(cm2), {tuple(now)}) if now else (None if str(cm2) == '' else 'non-empty rendering')
            if err:
                bad(f'render-after-{how}', f'{err} | lines now {now!r}')
        # FAILURE PATHS: an extension that is refused or dies half-way (an item whose __str__ raises, a non-str line) leaves
        # the comment a comment with its text; a later successful extension shows as comment lines too
        for how in ('iadd', 'append', 'add', 'lines-setter', 'iadd-base', 'append-base', 'iadd-twice'):
            cm3 = Comment(R.build(enc, TextBlock))
            keep = cm3
            poison = _Poison(_BaseBoom if how.endswith('base') else _Boom)
            for _rep in range(2 if how == 'iadd-twice' else 1):
                try:
                    if how.startswith('iadd'):
                        cm3 += ['new', poison, 'text']
                    elif how.startswith('append'):
                        cm3.append({'a': 'new', 'b': [poison]})
                    elif how == 'add':
                        _ = cm3 + [poison]
                    else:
                        cm3.lines = ['new', 3]
                except (Exception, _BaseBoom):  # pylint: disable=broad-except
                    pass
            if cm3 is not keep or not isinstance(cm3, Comment):
                bad(f'refused-{how}-replaced-the-comment', type(cm3).__name__)
                continue
            if list(cm3.lines) != before:
                bad(f'refused-{how}-changed-the-comment', f'before={before!r} after={cm3.lines!r}')
                continue
            rendered = str(cm3)
            if rendered != first:
                bad(f'render-after-refused-{how}', f'{rendered!r} vs {first!r}')
            cm3 += ['then', 'ok']
            err = render_ok(str(cm3), {tuple(before) + ('then', 'ok')})
            if err or not isinstance(cm3, Comment):
                bad(f'render-after-refused-{how}-and-retry', f'{err} type={type(cm3).__name__}')
        # EMBEDDING: a comment made FROM a block of code (the commented-out version next to the live one) - by construction, by
        # append, by += onto an empty comment - shares nothing with it: extending either one never shows in the other
        for how in ('ctor', 'append', 'iadd', 'ctor-of-comment'):
            code = TextBlock(R.build(enc, TextBlock)) if how != 'ctor-of-comment' else Comment(R.build(enc, TextBlock))
            code_before = list(code.lines)
            if how.startswith('ctor'):
                cm4 = Comment(code)
            elif how == 'append':
                cm4 = Comment()
                cm4.append(code)
            else:
                cm4 = Comment()
                cm4 += code
            cm4 += 'added to the comment'
            if list(code.lines) != code_before:
                bad(f'comment-shares-lines-with-its-source:{how}', f'source block now {code.lines!r}')
                continue
            code.append('int added_to_the_code;')
            pieces = union_split(str(cm4))
            if any(not p.startswith('//') for p in pieces) or any('added_to_the_code' in p for p in pieces):
                bad(f'source-block-shares-lines-with-the-comment:{how}', f'{pieces!r}')
        # as part of a bigger block (how the generator uses it)
        blk = TextBlock([Comment(R.build(enc, TextBlock)), 'int code;'])
        pieces = union_split(str(blk))
        noncomment = [p for p in pieces if not p.startswith('//')]
        if noncomment != ['int code;']:
            bad('comment-leaks-into-block', f'{pieces!r}')
    except Exception as exc:  # pylint: disable=broad-except
        bad(f'exception:{type(exc).__name__}', repr(exc))
    return out


# ---- generator level ------------------------------------------------------------------------

def gen_models():
    pts = []
    for delta in ({}, {'mc': 'p0:0', 'nreq': 2}, {'ns': '', 'kind': 'system', 'fac': 'import'},
                  {'psem': 'STS', 'rsem': 'allsts', 'prefix': 'Other.Project'}):
        pt = dict(M.BASE_POINT)
        pt.update(delta)
        pts.append(pt)
    return [M.build_model(pt) for pt in pts]


def noncomment(files):
    return [(name, [p for p in union_split(text) if not p.startswith('//')]) for name, text, _h in files]


def splice_risk(files):
    for name, text, _h in files:
        lines = text.split('\n')
        for a, b in zip(lines, lines[1:]):
            if a.startswith('//') and a.endswith('\\') and b.strip() and not b.startswith('//'):
                return f'{name}: comment line {a!r} splices into {b!r}'
    return None


def judge_gen(case):
    model, cfg = gen_models()[case['model']]
    cfg = dict(cfg)
    base_cfg = dict(cfg, copyright='(c) base', creator='base')
    cfg[case['field']] = B.StrSub(case['text']) if case.get('form') == 'subclass' else case['text']
    if case['field'] == 'copyright':
        cfg['creator'] = 'base'
    else:
        cfg['copyright'] = '(c) base'
    out = []
    try:
        base = B.build(model, base_cfg)
        got = B.build(model, cfg)
    except Exception as exc:  # pylint: disable=broad-except
        return [(f'gen-exception:{type(exc).__name__}', f'{exc!r} | {case}')]
    if [f[0] for f in base] != [f[0] for f in got]:
        out.append(('gen-file-names-changed', str(case)))
    for (name, want), (_n, have) in zip(noncomment(base), noncomment(got)):
        if want != have:
            extra = [p for p in have if p not in want][:3]
            out.append((f'gen-code-changed:{name.split(".")[-1]}',
                        f'{name}: non-comment lines differ, e.g. {extra!r} | {case}'))
    risk = splice_risk(got)
    if risk:
        out.append(('gen-comment-splices-into-code', f'{risk} | {case}'))
    # support files never depend on copyright / creator
    if [f[1] for f in base[2:]] != [f[1] for f in got[2:]]:
        out.append(('gen-support-file-changed', str(case)))
    return out


# ---------------------------------------------------------------------------------------------

def work(job):
    kind = job[0]
    part = Partial()
    if kind == 'strings':
        idx, nslots = job[1:]
        k = 0
        for s in itertools.chain(c17.all_strings(), HOSTILE):
            k += 1
            if k % nslots != idx:
                continue
            for enc in ({'s': s}, ['L', {'s': 'x'}, {'s': s}, None, ['T', {'s': s}]]):
                _one({'kind': 'cmt', 'enc': enc}, part, k % 499 == 0)
                # REPRESENTATION: the text as instances of subclasses of str / list (Enum-like members with their own
                # __str__)
                _one({'kind': 'cmt', 'enc': enc, 'form': 'subclass'}, part, False)
        if idx == 1 % nslots:
            # IDENTITY: the same list / dict / block object at several positions of one content value (a shared rule line,
            # a shared blank separator)
            for enc in c17.alias_encs():
                _one({'kind': 'cmt', 'enc': enc}, part, False)
    elif kind == 'trees':
        idx, nslots, max_nodes = job[1:]
        for k, tree in enumerate(ordered_trees(range(len(c17.LEAVES)), c17.INNER, max_nodes)):
            if k % nslots != idx:
                continue
            _one({'kind': 'cmt', 'enc': c17.tree_to_enc(tree)}, part, k % 997 == 0)
    elif kind == 'gen':
        idx, nslots = job[1:]
        k = 0
        for mi in range(4):
            for field in ('copyright', 'creator'):
                for text in HOSTILE + [None]:
                    k += 1
                    if k % nslots != idx:
                        continue
                    _one({'kind': 'gen', 'model': mi, 'field': field, 'text': text}, part, k % 41 == 0)
                    if text is not None and mi == 0:
                        _one({'kind': 'gen', 'model': mi, 'field': field, 'text': text, 'form': 'subclass'}, part, False)
    return part


def _one(case, part, sample):
    res = judge(case)
    part.evaluations += 1
    part.states += 1
    part.transitions += 1
    part.nontrivial += 1
    part.outcome(case['kind'] + (':violation' if res else ':ok'))
    for key, what in res:
        part.violation(key, what, case)
    if sample:
        part.sample(case)


def explore(ctx):
    max_nodes = 4 if ctx.thorough else 3
    jobs = [('strings', i, 8) for i in range(8)] + [('trees', i, 8, max_nodes) for i in range(8)] + \
           [('gen', i, 16) for i in range(16)]
    for part in pmap(work, jobs):
        ctx.merge(part)
    ctx.rule = ('(A) all strings of <=3 symbols over 15 symbols (incl. every Python line break) + '
                f'{len(HOSTILE)} hostile fragments, direct and nested, and all content trees of <= {max_nodes} nodes, '
                'as Comment content; (B) 4 models x {copyright, creator_info} x hostile fragments (+None) vs baseline '
                'build; exhaustive inside the bound')
    ctx.bounds = {'string_symbols': 3, 'tree_nodes': max_nodes, 'hostile_fragments': len(HOSTILE)}
    ctx.assumptions += ['line terminators = union of the 11 Python recognises and those a C++ compiler accepts '
                        '(LF, CRLF, lone CR)', 'comment text is compared after right-stripping']
    ctx.min_outcomes = 2
