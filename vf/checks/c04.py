"""C04 - multi-client port delivers out-events only to the client holding the claim.

Space : multi-client model points = all points within k deviations (k=1 quick / 2 thorough) of the
        multi-client base point (claim with (in,out) formals, release with an out formal, enum with 3
        fields), which varies the granting value, claim/release naming (incl. claim literally named
        'Release' and release named 'Claim'), identifier shapes, namespaces, a second provides port before
        or after the multi-client port, requires ports, facility origin, prefix. Inside every compiled
        program: N = 1..2 (quick) / 1..3 (thorough) registered clients x EVERY history over
        {claim(c) answered with every enum value, release(c), every other in-event(c)} to depth 3 / 4
        un-pruned, each replayed on a fresh shell with an out-event probe after every operation, plus a
        BFS pruned on (reference state, probe result) to depth 6 / 8.
Oracle: three-valued reference model (see gen_c04 in vf/lab.py): overruling single holder / set of
        holders by the literal statement / same with denied claims ignored - acceptable receivers are
        the union; 'nobody' only if one of them has no holder. Every client in-event must reach the
        component exactly once inside the dispatcher with reply and out arguments carried back.
"""
from . import labcommon

PID = 'C04'


def judge(case):
    return labcommon.judge_point(case, PID)


def explore(ctx):
    labcommon.explore_lab(ctx, PID, 1, 2, need_mc=True)
    ctx.rule = ('every multi-client model point within k deviations of the multi-client base point; inside each '
                'compiled program every claim/release/other history (see docstring) replayed on a fresh shell; '
                'states = model points (the per-program history counts are in the assertion details)')
    ctx.bounds.update({'clients': 3 if ctx.thorough else 2, 'unpruned_history_depth': 4 if ctx.thorough else 3,
                       'pruned_bfs_depth': 8 if ctx.thorough else 6})
    ctx.min_outcomes = 3
