"""C12 - building never alters its inputs and is independent of earlier builds.

Space : operations = {4 models: plain / multi-client / global-namespace system / model whose MTS build
        fails late} x {cfg A, cfg B (other semantics, import, prefix, suffix), cfg C and cfg D (invalid in
        two different ways: raise inside build after partial work)} x {shared Builder, fresh Builder} = 32 operations, executed
        on SHARED FileContents, Configuration, PortsCfg, PortsSemanticsCfg, PortSelect and name-set
        objects. ALL histories to depth 2 (quick) / 3 (thorough) un-pruned, each replayed on fresh
        objects; plus BFS pruned on the canonical state (deep snapshot of all inputs + every
        module/class-level attribute and function default of dznpy.* + the shared Builder's
        attributes) to depth 4 / 6.
Oracle: (i) deep snapshot of every input equal before and after each build; (ii) the (name, md5)
        list or the exception class of each build equals the one obtained for that (model, cfg) in
        a fresh child interpreter; (iii) the six support files equal <module>.create_header(prefix)
        called stand-alone; (iv) module-level state equal to the pristine digest after every history.
"""
import collections
import hashlib
import itertools
import json
import os
import subprocess
import sys

from ..core import Partial, pmap, HarnessError, VERIF, REPO_SRC, jhash
from .. import modelgen as M
from .. import build as B
from ..snapshot import snap, module_globals_digest

PID = 'C12'

NMODELS, NCFGS = 4, 4


_MODELS = []


def models():
    if _MODELS:
        return _MODELS[0]
    pts = []
    for delta in ({'nreq': 2}, {'nreq': 2, 'mc': 'p0:0'}, {'nreq': 2, 'ns': '', 'kind': 'system'}, {'nreq': 2}):
        pt = dict(M.BASE_POINT)
        pt.update(delta)
        pts.append(pt)
    res = [M.build_model(pt)[0] for pt in pts]
    # model 3: an event formal whose type cannot be resolved -> MTS builds fail late (FindError)
    dec = [d for d in M.declarations(res[3]['doc']) if d.kind == 'interface'][0]
    dec.node[3][1][3][0][1] = ['Nope']
    _MODELS.append(res)
    return res


def cfg_desc(mi, ci):
    mc = {'port': 'p', 'claim': 'Claim', 'grant': 'Ok', 'release': 'Release'} if mi == 1 else None
    if ci == 0:
        # models 0 and 3: BOTH requires selections are explicit name sets
        return {'provides': ['NONE', 'ALL'], 'requires': [['r'], ['r2']] if mi in (0, 3) else [['r'], 'REMAINING'],
                'fac': 'create', 'prefix': '',
                'suffix': 'Shell', 'mc': mc, 'copyright': 'c\nd', 'creator': 'me'}
    if ci == 1:
        prov = ['NONE', 'ALL'] if mi == 1 else ['ALL', 'NONE']
        return {'provides': prov, 'requires': ['ALL', 'NONE'] if mi == 3 else ['NONE', 'ALL'], 'fac': 'import',
                'prefix': 'Other.Project', 'suffix': 'X',
                'mc': dict(mc, grant='Busy') if mc else None, 'copyright': 'c2', 'creator': None}
    if ci == 3:
        # a different way to fail: multi-client claim naming a void-reply event / an unknown name in a selection
        if mi == 1:
            return {'provides': ['NONE', 'ALL'], 'requires': ['NONE', 'ALL'], 'fac': 'create', 'prefix': '',
                    'suffix': 'Shell', 'mc': dict(mc, claim='Other'), 'copyright': 'c', 'creator': 'me'}
        return {'provides': ['NONE', 'ALL'], 'requires': [['r', 'zz'], 'REMAINING'], 'fac': 'import', 'prefix': '',
                'suffix': 'Shell', 'mc': None, 'copyright': 'c', 'creator': 'me'}
    if mi == 1:
        return {'provides': ['NONE', 'ALL'], 'requires': ['NONE', 'ALL'], 'fac': 'create', 'prefix': '',
                'suffix': 'Shell', 'mc': dict(mc, release='Nope'), 'copyright': 'c', 'creator': 'me'}
    return {'provides': ['NONE', 'ALL'], 'requires': [['r'], 'NONE'], 'fac': 'create', 'prefix': '',
            'suffix': 'Shell', 'mc': None, 'copyright': 'c', 'creator': 'me'}


class World:
    """Fresh shared objects for one history."""

    def __init__(self):
        from dznpy.adv_shell import Builder, PortSelect, PortWildcard, PortsSemanticsCfg, PortsCfg, \
            MultiClientPortCfg  # pylint: disable=import-outside-toplevel
        from dznpy.scoping import ns_ids_t  # pylint: disable=import-outside-toplevel
        self.models = models()
        self.fcts = [B.parse_model(m) for m in self.models]
        self.names_r = {'r'}
        self.names_rz = {'r', 'zz'}
        self.names_r2 = {'r2'}
        sel = {'ALL': PortSelect(PortWildcard.ALL), 'NONE': PortSelect(PortWildcard.NONE),
               'REMAINING': PortSelect(PortWildcard.REMAINING), 'r': PortSelect(self.names_r),
               'rz': PortSelect(self.names_rz), 'r2': PortSelect(self.names_r2)}
        self.sel = sel

        def side(desc):
            key = json.dumps(desc)
            if key not in self.sides:
                def pick(d):
                    return d if isinstance(d, str) else ('rz' if len(d) > 1 else d[0])
                self.sides[key] = PortsSemanticsCfg(sts=sel[pick(desc[0])], mts=sel[pick(desc[1])])
            return self.sides[key]
        self.sides = {}
        self.portscfgs = {}
        self.cfgs = {}
        self.prefixes = {'': None, 'Other.Project': ns_ids_t('Other.Project')}
        self.encnames = {}
        for mi, ci in itertools.product(range(NMODELS), range(NCFGS)):
            d = cfg_desc(mi, ci)
            pkey = json.dumps([d['provides'], d['requires'], d['mc']])
            if pkey not in self.portscfgs:
                mcfg = None
                if d['mc']:
                    mcfg = MultiClientPortCfg(d['mc']['port'], d['mc']['claim'], ns_ids_t(d['mc']['grant']),
                                              d['mc']['release'])
                self.portscfgs[pkey] = PortsCfg(provides=side(d['provides']), requires=side(d['requires']),
                                                multiclient=mcfg)
            from dznpy.adv_shell import Configuration  # pylint: disable=import-outside-toplevel
            from dznpy.adv_shell.common import FacilitiesOrigin  # pylint: disable=import-outside-toplevel
            # REPRESENTATION: the encapsulee name as NamespaceIds (configurations 2, 3), as a dotted string (0), as a
            # list of identifiers (1) - all forms the builder accepts
            ids = list(self.models[mi]['encapsulee'])
            enc = self.encnames.setdefault((mi, ci), '.'.join(ids) if ci == 0 else (ids if ci == 1 else ns_ids_t(ids)))
            self.cfgs[(mi, ci)] = Configuration(
                dezyne_filename=self.models[mi]['file'], ast_fc=self.fcts[mi], output_basename_suffix=d['suffix'],
                fqn_encapsulee_name=enc, ports_cfg=self.portscfgs[pkey],
                facilities_origin=FacilitiesOrigin.CREATE if d['fac'] == 'create' else FacilitiesOrigin.IMPORT,
                copyright=d['copyright'], support_files_ns_prefix=self.prefixes[d['prefix']],
                creator_info=d['creator'], verbose=(ci in (1, 2)))     # configurations 1 and 2 log verbosely
        self.builder = Builder()

    def inputs(self):
        return {'fcts': self.fcts, 'cfgs': [self.cfgs[k] for k in sorted(self.cfgs)],
                'portscfgs': [self.portscfgs[k] for k in sorted(self.portscfgs)],
                'sides': [self.sides[k] for k in sorted(self.sides)], 'names_r': self.names_r, 'names_rz': self.names_rz,
                'names_r2': self.names_r2, 'selects': [self.sel[k] for k in sorted(self.sel)],
                'prefixes': [self.prefixes[k] for k in sorted(self.prefixes)],
                'encnames': [self.encnames[k] for k in sorted(self.encnames)]}

    def input_snaps(self):
        return {k: snap(v) for k, v in self.inputs().items()}


def outcome_of(builder, cfg):
    import contextlib  # pylint: disable=import-outside-toplevel
    import io  # pylint: disable=import-outside-toplevel
    try:
        with contextlib.redirect_stdout(io.StringIO()):
            res = builder.build(cfg)
        # the reported content hash is part of the output: it must be the md5 of THESE contents
        return [[f.filename, hashlib.md5(f.contents.encode('utf-8')).hexdigest() +
                 ('' if f.hash == hashlib.md5(f.contents.encode('utf-8')).hexdigest() else f'/reported-hash={f.hash}')]
                for f in res.files], res
    except Exception as exc:  # pylint: disable=broad-except
        return ['EXC', type(exc).__name__], None


def standalone_support(prefix):
    from dznpy.support_files import strict_port, ilog, misc_utils, meta_helpers, multi_client_selector, \
        mutex_wrapped  # pylint: disable=import-outside-toplevel
    return [m.create_header(prefix) for m in (strict_port, ilog, misc_utils, meta_helpers, multi_client_selector,
                                              mutex_wrapped)]


_PRISTINE = {}
STATE_CHANGES = []
_ESCALATED = [0]


def pristine_digest():
    if 'd' not in _PRISTINE:
        World()   # make sure every module is imported
        _PRISTINE['d'] = module_globals_digest()
    return _PRISTINE['d']


def run_history(ops, reference):
    """ops: list of [model, cfg, 'shared'|'fresh'] -> (violations, canonical state)"""
    from dznpy.adv_shell import Builder  # pylint: disable=import-outside-toplevel
    out = []
    pristine = pristine_digest()
    world = World()
    before = world.input_snaps()
    for i, (mi, ci, which) in enumerate(ops):
        builder = world.builder if which == 'shared' else Builder()
        got, res = outcome_of(builder, world.cfgs[(mi, ci)])
        after = world.input_snaps()
        if after != before:
            changed = [k for k in before if before[k] != after[k]]
            out.append((f'input-mutated:{changed[0]}', f'op {i} {ops[i]} changed {changed} | history={ops}'))
            before = after
        want = reference[f'{mi},{ci}']
        if got != want:
            if got[0] == 'EXC' or want[0] == 'EXC':
                key = f'outcome-differs-from-fresh-process:{got[:2] if got[0] == "EXC" else "OK"}'
                what = f'got {got[:2]} want {want[:2]}'
            else:
                diff = [a[0] for a, b in zip(want, got) if a != b] or ['<list>']
                key = f'output-differs-from-fresh-process:{diff[0].split(".")[-1]}'
                what = f'files {diff} differ'
            out.append((key, f'op {i} {ops[i]}: {what} | history={ops}'))
        if res is not None:
            d = cfg_desc(mi, ci)
            alone = standalone_support(world.prefixes[d['prefix']])
            for gen, ref in zip(res.files[2:], alone):
                if (gen.filename, gen.contents, gen.namespace) != (ref.filename, ref.contents, ref.namespace):
                    out.append((f'support-file-differs-from-standalone:{ref.filename}',
                                f'op {i} {ops[i]} | history={ops}'))
        digest = module_globals_digest()
        if digest != pristine:
            # hidden module / class level state is no violation by itself (a transparent cache is allowed): it is part of the
            # canonical state (the pruned search goes on from here) and makes _one() explore continuations of this history
            diff = ['.'.join(x for x in a[:3] if isinstance(x, str)) for a, b in zip(pristine, digest) if a != b][:3]
            STATE_CHANGES.append((diff[0] if diff else 'new-attribute', [list(o) for o in ops[:i + 1]]))
            _PRISTINE['d'] = digest
            pristine = digest
    canon = jhash([repr(before), repr(snap(vars(world.builder))), repr(module_globals_digest())])
    return out, canon


# ---- fresh-process reference ----------------------------------------------------------------

CHILD = r'''
import json, sys
sys.dont_write_bytecode = True
sys.path.insert(0, %(verif)r); sys.path.insert(0, %(src)r)
from vf import core; core.import_guard()
from vf.checks import c12
w = c12.World()
got, _ = c12.outcome_of(w.builder, w.cfgs[(%(mi)d, %(ci)d)])
print(json.dumps(got))
'''


def child_reference(job):
    mi, ci = job
    code = CHILD % {'verif': VERIF, 'src': REPO_SRC, 'mi': mi, 'ci': ci}
    res = subprocess.run([sys.executable, '-c', code], capture_output=True, text=True, timeout=300, check=False,
                         env=dict(os.environ, PYTHONHASHSEED='0'))
    if res.returncode != 0:
        raise HarnessError(f'reference child failed: {res.stderr[-600:]}')
    return f'{mi},{ci}', json.loads(res.stdout.strip().splitlines()[-1])


def references():
    return dict(pmap(child_reference, list(itertools.product(range(NMODELS), range(NCFGS)))))



from ..failhist import FS_OPS, FS_FAIL, FS_VALID, fs_references, fs_histories, run_fs_history  # noqa: E402  pylint: disable=wrong-import-position


PREFIXES = [None, 'Dzn', 'Vendor.Dzn', 'Dzn.Vendor', 'dzn', 'Dzn.Dzn', 'A', 'A.B.C.D', 'Dzn_', '_Dzn', 'My.Project',
            'Other.Project', 'DznX', 'X.Dzn.Y', 'Support', 'Vendor.dzn']


def judge_prefix(case):
    """A build with namespace prefix P carries exactly the support files create_header(P) gives stand-alone -
    also after an earlier build with another prefix through the same Builder."""
    from dznpy.adv_shell import Builder  # pylint: disable=import-outside-toplevel
    from dznpy.scoping import ns_ids_t  # pylint: disable=import-outside-toplevel
    out = []
    builder = Builder()
    for prefix in case['prefixes']:
        model = models()[case['model']]
        d = dict(cfg_desc(case['model'], 0), prefix=prefix or '')
        try:
            cfg = B.mk_configuration(model, d)
            res = builder.build(cfg)
        except Exception as exc:  # pylint: disable=broad-except
            out.append((f'prefix-breaks-build:{type(exc).__name__}', f'prefix={prefix!r}: {exc!r}'))
            continue
        alone = standalone_support(ns_ids_t(prefix) if prefix else None)
        for gen, ref in zip(res.files[2:], alone):
            if (gen.filename, gen.contents, gen.namespace) != (ref.filename, ref.contents, ref.namespace):
                out.append((f'support-file-differs-from-standalone:{ref.filename.split("Dzn_")[-1]}',
                            f'prefix={prefix!r} (sequence {case["prefixes"]}): build has {gen.filename}, stand-alone '
                            f'{ref.filename}'))
                break
        names = {f.filename for f in res.files}
        for f in res.files[:2]:
            import re as _re  # pylint: disable=import-outside-toplevel
            for inc in _re.findall(r'#include "([^"]+)"', f.contents):
                if 'Dzn_' in inc and inc not in names:
                    out.append(('shell-includes-other-support-file', f'prefix={prefix!r}: {f.filename} includes {inc}'))
    return out


OPS = [[mi, ci, which] for mi in range(NMODELS) for ci in range(NCFGS) for which in ('shared', 'fresh')]


def judge(case):
    if 'prefixes' in case:
        return judge_prefix(case)
    if 'fs_history' in case:
        from ..failhist import judge_fs  # pylint: disable=import-outside-toplevel
        return judge_fs(case)
    ref = case.get('reference') or references()
    res, _ = run_history(case['history'], ref)
    seen, out = set(), []
    for key, what in res:
        if key not in seen:
            seen.add(key)
            out.append((key, what))
    return out


def work(job):
    kind, first, depth, reference = job
    part = Partial()
    if kind == 'prefixes':
        for mi in (0, 1):
            for seq in [[p] for p in PREFIXES] + [[p, q] for p in PREFIXES for q in PREFIXES if p != q]:
                case = {'prefixes': seq, 'model': mi}
                res = judge_prefix(case)
                part.evaluations += 1
                part.transitions += len(seq)
                part.nontrivial += 1
                part.outcome('prefixes')
                for key, what in res:
                    part.violation(key, what, case)
        part.states = part.evaluations
    elif kind == 'failstages':
        from ..failhist import _fs_job  # pylint: disable=import-outside-toplevel
        which, override, thorough, first_op = first
        part = _fs_job((which, override, 'thorough' if thorough else 'quick', first_op, reference))
    elif kind == 'sweep':
        for tail in itertools.product(OPS, repeat=depth - 1):
            hist = [first] + [list(o) for o in tail]
            _one(hist, reference, part)
        part.states = part.evaluations
    else:
        pruned_bfs(depth, reference, part)
    return part


def _one(hist, reference, part, escalate=True):
    del STATE_CHANGES[:]
    res, canon = run_history(hist, reference)
    if STATE_CHANGES and not res and escalate and _ESCALATED[0] < 3 and len(hist) <= 3:
        # ESCALATION: the history left something behind at module / class level: every continuation by one operation and by the
        # same operation twice is explored as well (histories of up to len + 2)
        _ESCALATED[0] += 1
        attr = STATE_CHANGES[0][0]
        part.extra['histories_that_changed_module_state'] += 1
        for op in OPS:
            for tail in ([op], [op, op]):
                _one(hist + [list(o) for o in tail], reference, part, escalate=False)
    part.evaluations += 1
    part.transitions += len(hist)
    part.nontrivial += 1 if len(hist) > 1 else 0
    part.outcome(f'len={len(hist)}:' + ','.join(sorted({k.split(":")[0] for k, _ in res})))
    for key, what in res:
        part.violation(key, what, {'history': hist})
    if part.evaluations % 211 == 1:
        part.sample({'history': hist})
    return canon


def pruned_bfs(max_depth, reference, part, budget=600):
    seen = set()
    frontier = collections.deque([[]])
    while frontier:
        hist = frontier.popleft()
        if len(hist) >= max_depth:
            continue
        for op in OPS:
            nxt = hist + [op]
            canon = _one(nxt, reference, part)
            if canon not in seen:
                seen.add(canon)
                frontier.append(nxt)
        if part.nviol or len(seen) > budget:
            # a violation ends the search (it is reported with its history); a state explosion means
            # hidden state keeps growing - stop and say so instead of running forever
            if len(seen) > budget:
                part.caps.append(f'pruned BFS stopped: more than {budget} distinct states')
            break
    part.states += len(seen)
    part.extra['pruned_bfs_states'] = len(seen)


def explore(ctx):
    reference = references()
    depth = 3 if ctx.thorough else 2
    jobs = []
    for d in range(1, depth + 1):
        jobs += [('sweep', list(op), d, reference) for op in OPS]
    jobs.append(('prefixes', None, 0, None))
    fs_ref = fs_references()
    for which in ('shared', 'fresh'):
        for override in (None, 2):
            for first_op in FS_OPS:
                jobs.append(('failstages', (which, override, ctx.thorough, first_op), 0, fs_ref))
    ctx.extra['reference_child_processes'] += len(fs_ref)
    for part in pmap(work, jobs):
        ctx.merge(part)
    if ctx.nviol == 0:
        for part in pmap(work, [('bfs', None, 6 if ctx.thorough else 4, reference)]):
            ctx.merge(part)
    else:
        ctx.notes['pruned_bfs'] = 'skipped: the un-pruned sweep already found violations'
    ctx.extra['reference_child_processes'] = len(reference)
    ctx.rule = (f'all histories of 1..{depth} build operations over 32 operations (4 models x 4 configurations x '
                'shared/fresh Builder) on shared input objects, replayed from fresh objects (un-pruned); plus BFS '
                f'pruned on the canonical state to depth {6 if ctx.thorough else 4}; every build compared with a '
                'fresh-process reference; non-trivial = history of >= 2 builds; plus every sequence of 1..2 builds over 16 '
                'support-file namespace prefixes (2 models) compared with stand-alone generation')
    ctx.bounds = {'unpruned_depth': depth, 'pruned_depth': 6 if ctx.thorough else 4, 'operations': len(OPS)}
    ctx.assumptions += ['pruning: the canonical state contains the deep snapshot of every shared input, of the '
                        "shared Builder's attributes and of every module/class-level attribute and function default "
                        'of dznpy.*; equal states therefore have equal futures; cross-checked by the un-pruned sweep']
    ctx.min_outcomes = 2
