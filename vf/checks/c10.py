"""C10 - see DESIGN.md section 4/C10. Lab property: every model/configuration point within k deviations of
the base point is generated, compiled against the mock runtime and exercised by the generated driver."""
from . import labcommon

RULE = ('per model point: every single binding that the user or the wrapped component is responsible for is left out one at a time (for multi-client ports: for 1,2,3 registered clients) and FinalConstruct must throw a runtime_error; fully bound must return and record the parent; registration after final construction must throw')
PID = 'C10'


def judge(case):
    return labcommon.judge_point(case, PID)


def explore(ctx):
    labcommon.explore_lab(ctx, PID, 1, 2)
    ctx.rule = RULE
    ctx.min_outcomes = 2
