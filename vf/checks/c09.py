"""C09 - see DESIGN.md section 4/C09. Lab property: every model/configuration point within k deviations of
the base point is generated, compiled against the mock runtime and exercised by the generated driver.

Additionally (both origins in ONE program): for a handful of points a 'create' shell and an 'import' shell of the same
encapsulee - hence in the same C++ namespace - are generated with different suffixes, compiled as separate
translation units and linked with a main that chains them the documented way (the create shell's Locator() feeds the
import shell): each shell must apply the check of ITS OWN origin and use the facilities of its own origin.
"""
from ..core import Partial, pmap
from .. import lab
from .. import modelgen as M
from .. import build as B
from . import labcommon

RULE = ("per model point, both origins: the shell is constructed for every subset of {dispatcher, runtime, unrelated service} in the user's locator (8 subsets): throw/no-throw verdict, identity of the locator/dispatcher/runtime seen by the component at construction, content of the shell's locator, user's locator unmodified, presence/absence of the Locator() accessor; plus create and import shells of one encapsulee linked into one program and chained")
PID = 'C09'

TWO_ORIGIN_DELTAS = [{}, {'mc': 'p0:0'}, {'ns': ''}, {'ns': 'N.M'}, {'kind': 'system', 'ns': ''}, {'ninj': 1},
                     {'psem': 'STS', 'rsem': 'allsts'}, {'prefix': 'Other.Project'}]


def two_origin_points():
    out = []
    for d in TWO_ORIGIN_DELTAS:
        pt = dict(M.BASE_POINT)
        pt.update(d)
        if M.valid_point(pt):
            out.append(pt)
    return out


def two_origin_main(facts, cfg_c, cfg_i):
    sns = lab.support_ns(cfg_c)
    scope = '::' + '::'.join(list(facts.scope)) if facts.scope else ''
    create_t = f'{scope}::{facts.base}{cfg_c["suffix"]}'
    import_t = f'{scope}::{facts.base}{cfg_i["suffix"]}'
    mc = bool(cfg_c.get('mc'))
    log = 'log_, ' if mc else ''
    lines = [f'#include "{facts.base}{cfg_c["suffix"]}.hh"', f'#include "{facts.base}{cfg_i["suffix"]}.hh"',
             '#include "verif_probe.hh"', '#include <memory>', '#include <stdexcept>',
             'template <class F> static bool throws(F f, std::string& what) { try { f(); } catch (const std::exception& e) { what = e.what(); return true; } what.clear(); return false; }',
             'int main() {', '  std::setvbuf(stdout, nullptr, _IOLBF, 0);', '  dzn::locator proto; std::string what;']
    if mc:
        lines.append(f'  {sns}::ILog log_;')
    for p in facts.injected:
        lines.append(f'  {p.cpp_itf} inj_{p.name}{{{{{{"i",nullptr,nullptr,nullptr}},{{"",nullptr,nullptr,nullptr}}}}}}; proto.set(inj_{p.name});')
    lines += [
        f'  std::unique_ptr<{create_t}> cs; std::unique_ptr<{import_t}> is;',
        f'  bool t1 = throws([&]{{ cs.reset(new {create_t}(proto, {log}"c")); }}, what);',
        '  verif::emit("C09", "two-origins:create-on-empty-prototype", "constructs", !t1, what);',
        '  if (t1) { verif::emit("LAB", "done", "main", true, ""); return 0; }',
        '  dzn::pump* own_pump = cs->Locator().try_get<dzn::pump>(); dzn::runtime* own_rt = cs->Locator().try_get<dzn::runtime>();',
        '  verif::emit("C09", "two-origins:create-owns-facilities", "locator", own_pump && own_rt && verif::registry().pump == own_pump, "");',
        '  verif::registry().reset();',
        f'  bool t2 = throws([&]{{ is.reset(new {import_t}(cs->Locator(), {log}"i")); }}, what);',
        '  verif::emit("C09", "two-origins:import-accepts-the-create-shells-locator", "constructs", !t2, what);',
        '  verif::emit("C09", "two-origins:import-uses-that-dispatcher", "identity", t2 || (verif::registry().pump == own_pump && verif::registry().runtime == own_rt && verif::registry().locator == &cs->Locator()), "");',
        f'  bool t3 = throws([&]{{ {import_t} tmp(proto, {log}"i2"); }}, what);',
        '  verif::emit("C09", "two-origins:import-rejects-empty-locator", "throws", t3, what);',
        f'  bool t4 = throws([&]{{ {create_t} tmp(cs->Locator(), {log}"c2"); }}, what);',
        '  verif::emit("C09", "two-origins:create-rejects-complete-locator", "throws", t4, what);',
        '  dzn::pump up; dzn::runtime ur; dzn::locator partial; partial.set(up);',
    ]
    for p in facts.injected:
        lines.append(f'  partial.set(inj_{p.name});')
    lines += [
        f'  bool t5 = throws([&]{{ {import_t} tmp(partial, {log}"i3"); }}, what);',
        '  verif::emit("C09", "two-origins:import-rejects-locator-without-runtime", "throws", t5, what);',
        f'  bool t6 = throws([&]{{ {create_t} tmp(partial, {log}"c3"); }}, what);',
        '  verif::emit("C09", "two-origins:create-rejects-locator-with-dispatcher", "throws", t6, what);',
        # REPRESENTATION: the prototype handed over as a const reference and as a temporary
        f'  {{ const dzn::locator& cproto = proto; bool t7 = throws([&]{{ {create_t} tmp(cproto, {log}"c4"); }}, what);',
        '    verif::emit("C09", "two-origins:create-from-const-prototype", "constructs", !t7, what); }',
        f'  {{ bool t8 = throws([&]{{ {create_t} tmp(proto.clone(), {log}std::string("c") + "5"); }}, what);',
        '    verif::emit("C09", "two-origins:create-from-temporary-prototype", "constructs", !t8, what); }',
        '  is.reset(); cs.reset();',
        '  verif::emit("LAB", "done", "main", true, "");', '  return 0; }']
    return '\n'.join(lines) + '\n'


def two_origin_task(pt):
    part = Partial()
    case = lab.make_case(pt)
    pid = case['id']
    part.evaluations += 1
    part.states += 1
    rcase = {'two_origins': True, 'point': pt}
    try:
        facts = M.Facts(case['model'])
        cfg_c = dict(case['cfg'], fac='create', suffix='Crt')
        cfg_i = dict(case['cfg'], fac='import', suffix='Imp')
        files_c = B.build(case['model'], cfg_c)
        files_i = B.build(case['model'], cfg_i)
        src, _names = lab.generate_sources(case)
        del src['driver.cc']
        for name, text, _h in files_c + files_i:
            src[name] = text
        src['main_two.cc'] = two_origin_main(facts, cfg_c, cfg_i)
    except Exception as exc:  # pylint: disable=broad-except
        part.violation(f'generation-failed:{type(exc).__name__}', f'point {pid}: {exc!r}', rcase)
        return part
    res = lab.run_sources(src, main=[files_c[1][0], files_i[1][0], 'main_two.cc'])
    if not res['compiled']:
        first = (res['compile_error'].splitlines() or ['?'])[0]
        norm = first.split('error:')[-1].split('multiple definition of')[-1].split(';')[0].strip()[:70]
        part.violation(f'two-origins:program-does-not-build:{norm}',
                       f'point {pid}: a create shell and an import shell of one encapsulee cannot be linked into one '
                       f'program: {res["compile_error"][:500]}', rcase)
        part.outcome('two-origins:no-build')
        return part
    done = any(ln['prop'] == 'LAB' and ln['group'] == 'done' for ln in res['lines'])
    if res['exit'] != 0 or not done:
        part.violation('two-origins:run-aborted', f'point {pid}: exit {res["exit"]} {res["stderr"][:300]}', rcase)
    part.nontrivial += 1
    for ln in res['lines']:
        if ln['prop'] != PID:
            continue
        part.transitions += 1
        part.outcome(ln['group'])
        if not ln['ok']:
            part.violation(f'{ln["group"]}', f'point {pid}: {ln["group"]} {ln["subject"]}: {ln["detail"][:300]}', rcase)
    return part


def judge(case):
    if case.get('pysched'):
        from .. import pysched  # pylint: disable=import-outside-toplevel
        return pysched.judge(case)
    if case.get('two_origins'):
        part = two_origin_task(case['point'])
        return [(k, v[0]) for k, v in part.violations.items()]
    return labcommon.judge_point(case, PID)


def explore(ctx):
    labcommon.explore_lab(ctx, PID, 1, 2)
    for part in pmap(two_origin_task, two_origin_points()):
        ctx.merge(part)
    # SCHEDULES of the generator: a 'create' build and an 'import' build in two Python threads - each gets the
    # facilities of ITS origin
    from .. import pysched  # pylint: disable=import-outside-toplevel
    specs = [{'point': dict(M.BASE_POINT), 'cfg_a': {'fac': 'create'}, 'cfg_b': {'fac': 'import'}, 'shared': False}]
    if ctx.thorough:
        specs += [{'point': M.mc_base_point(), 'cfg_a': {'fac': 'create'}, 'cfg_b': {'fac': 'import'}, 'shared': True, 'every': 97}]
    for part in pmap(pysched.pair_task, pysched.pair_jobs(specs, 16)):
        ctx.merge(part)
    ctx.rule = RULE + ('; plus a create build and an import build in two Python threads: every one-preemption schedule '
                       '(preemption at the first and last execution of every distinct library line; roles swapped) must '
                       'give each build the output of its own origin')
    ctx.min_outcomes = 2
