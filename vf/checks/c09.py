"""C09 - see DESIGN.md section 4/C09. Lab property: every model/configuration point within k deviations of
the base point is generated, compiled against the mock runtime and exercised by the generated driver."""
from . import labcommon

RULE = ("per model point, both origins: the shell is constructed for every subset of {dispatcher, runtime, unrelated service} in the user's locator (8 subsets): throw/no-throw verdict, identity of the locator/dispatcher/runtime seen by the component at construction, content of the shell's locator, user's locator unmodified, presence/absence of the Locator() accessor")
PID = 'C09'


def judge(case):
    return labcommon.judge_point(case, PID)


def explore(ctx):
    labcommon.explore_lab(ctx, PID, 1, 2)
    ctx.rule = RULE
    ctx.min_outcomes = 2
