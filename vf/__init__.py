"""vf - bounded exhaustive exploration ("model checking") of the dznpy properties C01..C20.

Run with:  /venv/bin/python -m vf check C17 --tier quick
           /venv/bin/python -m vf replay /verif/replays/C17/<hash>.json
See /verif/DESIGN.md.
"""
