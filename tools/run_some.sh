#!/bin/bash
# usage: run_some.sh <tier> ID...   (uses the directory it is started from)
tier=$1; shift
for c in "$@"; do
  s=$(date +%s); out=$(/venv/bin/python -m vf check $c --tier $tier 2>&1); rc=$?; e=$(date +%s)
  echo "$c rc=$rc $((e-s))s $(echo "$out" | tail -1)"; echo "$out" | grep -E "^(VIOLATION|KNOWN|HARNESS)" | head -5
done
