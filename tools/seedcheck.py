#!/venv/bin/python
"""Run checks against a seeded change WITHOUT touching /repo: creates a scratch worktree of /repo HEAD,
applies /verif/seeded/<seed id>/patch.diff, runs the checks with VF_REPO pointing there, removes it.
usage: seedcheck.py <seed id | existing worktree dir> <ID[,ID...]> [tier]"""
import os, subprocess, sys
seed, ids = sys.argv[1], sys.argv[2]
tier = sys.argv[3] if len(sys.argv) > 3 else 'quick'
made = False
if os.path.isdir(seed):
    wt = seed
else:
    wt = f'/tmp/sc_{seed}_{os.getpid()}'
    # a seed that was made against an earlier commit AND cannot be carried over (meta.json "base") is judged on that commit
    import json
    base = 'HEAD'
    try:
        base = json.load(open(f'/verif/seeded/{seed}/meta.json', encoding='utf-8')).get('base', 'HEAD')
    except (OSError, ValueError):
        pass
    subprocess.run(['git', '-C', '/repo', 'worktree', 'add', '-q', '--detach', wt, base], check=True)
    made = True
    # seeds were made against an earlier HEAD: fall back to a three-way merge when a later fix touched the same lines
    if subprocess.run(['git', '-C', wt, 'apply', f'/verif/seeded/{seed}/patch.diff'], check=False).returncode != 0:
        subprocess.run(['git', '-C', wt, 'apply', '--3way', f'/verif/seeded/{seed}/patch.diff'], check=True)
        subprocess.run(['git', '-C', wt, 'reset', '-q'], check=True)
try:
    env = dict(os.environ, VF_REPO=wt)
    procs = [(i, subprocess.Popen(['/venv/bin/python', '-m', 'vf', 'check', i, '--tier', tier], cwd='/verif', env=env, stdout=subprocess.PIPE, stderr=subprocess.PIPE, text=True)) for i in ids.split(',')]
    for i, pr in procs:
        try:
            out, err = pr.communicate(timeout=3600)
        except subprocess.TimeoutExpired:
            pr.kill(); out, err = pr.communicate()
        keys = [l.strip() for l in out.splitlines() if l.startswith('  key=')]
        print(f'--- {seed} / {i}: rc={pr.returncode} ' + ('DETECTED' if pr.returncode == 1 else ('not detected' if pr.returncode == 0 else 'HARNESS PROBLEM')))
        for k in keys[:4]: print('    ' + k[:220])
        if pr.returncode not in (0, 1): print(out[-800:], err[-300:])
finally:
    if made:
        subprocess.run(['git', '-C', '/repo', 'worktree', 'remove', '--force', wt])
