#!/venv/bin/python
"""Run checks against a scratch worktree that contains a seeded change (does not touch /repo).
usage: seedcheck.py <worktree> <ID[,ID...]> [tier]"""
import os, subprocess, sys
wt, ids = sys.argv[1], sys.argv[2]
tier = sys.argv[3] if len(sys.argv) > 3 else 'quick'
env = dict(os.environ, VF_REPO=wt)
procs = [(i, subprocess.Popen(['/venv/bin/python', '-m', 'vf', 'check', i, '--tier', tier], cwd='/verif', env=env, stdout=subprocess.PIPE, stderr=subprocess.PIPE, text=True)) for i in ids.split(',')]
for i, pr in procs:
    try:
        out, err = pr.communicate(timeout=3600)
    except subprocess.TimeoutExpired:
        pr.kill(); out, err = pr.communicate()
    keys = [l.strip() for l in out.splitlines() if l.startswith('  key=')]
    print(f'--- {wt} / {i}: rc={pr.returncode} ' + ('DETECTED' if pr.returncode == 1 else ('not detected' if pr.returncode == 0 else 'HARNESS PROBLEM')))
    for k in keys[:4]: print('    ' + k[:220])
    if pr.returncode not in (0, 1): print(out[-800:], err[-300:])
