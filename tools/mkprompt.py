#!/venv/bin/python
"""Write the task text for one seeding sub-agent to /tmp/prompts/<round>_<cNN>.md and create its scratch worktree.
The text contains ONLY the property (title, statement, quantifier), the protocol, the theme of the round and a list
of the mechanisms earlier seeds for this property used (so that the new one is different) - nothing about the checks.
usage: mkprompt.py <round tag, e.g. sub15> <theme file> [cNN ...]"""
import glob, json, os, subprocess, sys
rnd, theme_file = sys.argv[1], sys.argv[2]
only = sys.argv[3:]
theme = open(theme_file, encoding='utf-8').read()
props = {json.loads(l)['id']: json.loads(l) for l in open('/verif/properties.jsonl', encoding='utf-8')}
os.makedirs('/tmp/prompts', exist_ok=True)
for pid, p in props.items():
    tag = 'c' + pid[1:]
    if only and tag not in only:
        continue
    wt = f'/tmp/wt_{rnd}_{tag}'
    if not os.path.isdir(wt):
        subprocess.run(['git', '-C', '/repo', 'worktree', 'add', '-q', '--detach', wt, 'HEAD'], check=True)
    earlier = []
    for meta in sorted(glob.glob(f'/verif/seeded/sub*_{tag}/meta.json')):
        try:
            m = json.load(open(meta, encoding='utf-8'))
        except (OSError, ValueError):
            continue
        earlier.append('- ' + ' '.join(str(m.get('summary', '')).split())[:230])
    text = f"""# Task: seed one realistic, hard-to-spot defect into a Python library

You work ONLY inside the scratch git worktree `{wt}` (a checkout of the library `dznpy`, sources in `{wt}/src/dznpy`,
tests in `{wt}/test`). Never touch `/repo` or `/verif`, never commit, never look outside this worktree except for
the interpreter (`/venv/bin/python`) and the compilers (`g++`, `clang++`). There is no network.

IMPORTANT environment trap: `/venv/bin/python -c "import dznpy"` imports an installed wheel, NOT the worktree. Any
program that exercises your change must start with `sys.path.insert(0, <src dir>)` and should assert that
`dznpy.__file__` lies under that directory. No Dezyne tool chain / runtime is installed: a demonstration that compiles
generated C++ must bring its own minimal mock of `dzn/meta.hh`, `dzn/locator.hh`, `dzn/runtime.hh`, `dzn/pump.hh` and
of the Dezyne-generated model header (keep it small), and hand-written Dezyne JSON ASTs (see
`{wt}/test` for the JSON shape the parser expects).

## The property (a promise the library makes to its users)

**{p['title']}**

{p['statement']}

It is meant to hold {p['quantifier']['text']}.

## What to produce

A change to the library sources (`src/dznpy/...` only) that BREAKS this property, such that
1. the library still imports and `cd {wt} && /venv/bin/python -m pytest -q -p no:cacheprovider --timeout=900 --continue-on-collection-errors`
   still reports `181 passed` (10 collection errors are normal), and `cd {wt}/test && /venv/bin/python -m pytest -q -p no:cacheprovider --continue-on-collection-errors`
   reports the same numbers of passed / failed as WITHOUT your change (run it before you start to learn them);
2. ordinary use does not expose it at once: it needs something specific to manifest (see the theme below);
3. it looks like something a maintainer could plausibly have merged (a clean-up, optimisation, feature, hardening),
   not like sabotage; no dead give-aways in comments or names;
4. the unchanged library really satisfies the property on your demonstration input (the demonstration passes there).

Deliver in `{wt}/SEED/`:
* `patch.diff` - `git diff` of your change (sources only; make sure `git apply` works on a clean checkout);
* `demo.py` - a stand-alone program called as `/venv/bin/python demo.py <path to a src directory>` that exits 0 and prints
  `PROPERTY HOLDS` when the property holds on that source tree and exits 1 and prints what went wrong when it does not;
  it must exit 0 on the unchanged sources and 1 with your patch applied; it must not depend on timing luck (if threads
  are involved, force the interleaving deterministically), must finish within 2 minutes and clean up after itself;
  additional files it needs go next to it;
* `meta.json` - keys `property` ("{pid}"), `summary` (what was changed and how it is disguised), `needs` (precisely what
  is required for the defect to manifest and what does NOT trigger it), `files_changed`, `why_hard`, `tests_run`
  (the commands you ran and their results).
Verify all of this yourself before you finish: save the diff, `git checkout -- src` to get the unchanged sources, run the
demo (must exit 0), `git apply SEED/patch.diff`, run both suites and the demo again (must exit 1). NEVER use `git stash`
(the stash is shared with other worktrees of this repository and other people are working in those). Leave the worktree
with your change applied.

## Theme of this round

{theme}

## Mechanisms already used by earlier seeded defects for this property - yours must be DIFFERENT in kind

{chr(10).join(earlier) if earlier else '- (none)'}

Your final answer: three lines - the file(s) changed, what triggers the defect, and the demo results (exit codes
without / with the patch).
"""
    path = f'/tmp/prompts/{rnd}_{tag}.md'
    with open(path, 'w', encoding='utf-8') as fh:
        fh.write(text)
    print(path, wt, len(earlier))
