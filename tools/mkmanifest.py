#!/venv/bin/python
"""Regenerate /verif/MANIFEST.json from the table below (keeps it schema-valid at all times)."""
import json
import os

HERE = os.path.dirname(os.path.dirname(os.path.abspath(__file__)))
PY = '/venv/bin/python'

# id -> (design_ref, technique, level text, level note)
CHECKS = {
    'C01': ('DESIGN.md 4/C01', 'deviation-bounded enumeration of model/configuration points; each generated shell is '
            'compiled against a mock Dezyne runtime and an auto-generated driver enumerates every (port, event, argument '
            'position) in both travel directions inside the compiled program',
            'Every point within 1 (quick) / 2 (thorough) deviations of the base point in the 16-dimensional model space; '
            'per program every event fired once with pairwise distinct (and same-typed) argument values while recorders sit on '
            'all events of all ports: exactly one hit on the same-named event of the same-named port, arguments, reply, out and '
            'inout values intact; under AddressSanitizer.',
            'Trusted: mock dzn:: runtime (vf/cxx/mock), mock dzn-code header generator (modelgen), driver generator (lab.py), '
            'g++ 12. Model space bounds: <=2 ports per direction, extern-typed formals.'),
    'C02': ('DESIGN.md 4/C02', 'same compiled programs as C01; dispatcher involvement measured on a deterministic step pump '
            '(posted counter, in-dispatch flag, deferred queueing with overwritten arguments and scrubbed stack, ASan '
            'use-after-return)',
            'Per exposed port of every model point: accessor return type Sts<>/Mts<>, port identity, and per event whether it '
            'travels through the dispatcher exactly as configured; deferred requires out-events must have copied their arguments.',
            'Trusted: as C01. "Blocks the caller until the dispatcher has run it" is additionally explored under the scheduler in C11.'),
    'C04': ('DESIGN.md 4/C04', 'explicit-state exploration of multi-client histories inside the compiled program: every '
            'claim/release/other history replayed on a fresh shell with an out-event probe after each operation; un-pruned '
            'sweep + BFS pruned on (reference state, probe)',
            'All multi-client model points within 1 (quick) / 2 (thorough) deviations of the multi-client base point (naming '
            'variants incl. claim named Release, every granting value, second provides port, namespaces...) x 1..2 / 1..3 '
            'clients x all histories to depth 3 / 4 un-pruned and BFS to depth 6 / 8, judged by a three-valued reference model.',
            'Trusted: as C01 plus the reference model in gen_c04 (vf/lab.py). Situations with two simultaneous holders are '
            'accepted under any of three readings of the statement.'),
    'C06': ('DESIGN.md 4/C06', 'BFS over inclusion states (sets of already included headers) of the returned headers, each '
            'transition one translation unit through g++ (clang++ in thorough); plus second-TU link/run and multi-prefix link',
            'Corner-case points (global namespace, empty interface, no ports, multi-client, mixed semantics, both prefixes, '
            'import, system, injected); quick: all inclusion states of size <=1 + full set (59 TUs per point), thorough: the '
            'complete 2^7 x 7 graph on 3 points and every point within 1 deviation, also with clang++; the shell used from a '
            'second TU; three shells with two prefixes in one program; quoted-include closure.',
            'Trusted: compilers; the mock runtime headers include many standard headers, so missing standard includes are '
            'only judged for headers that include no dzn/ header.'),
    'C09': ('DESIGN.md 4/C09', 'same compiled programs as C01; the shell is constructed for every subset of '
            '{dispatcher, runtime, service} in the user locator and identities/contents are asserted',
            'Every model point within 1 / 2 deviations x 8 locator contents x both origins: throw verdict, locator / '
            'dispatcher / runtime identity seen by the component in its constructor, exact locator content, user locator '
            'unmodified, Locator() accessor present/absent; -Wreorder findings on facility members.',
            'Trusted: as C01. The mock component reads its locator in the constructor like real Dezyne components.'),
    'C10': ('DESIGN.md 4/C10', 'same compiled programs as C01; fault enumeration inside the program: every single binding left '
            'out one at a time on a fresh shell',
            'Every model point within 1 / 2 deviations x every event the user or the wrapped component must bind (multi-client: '
            'x 1..3 registered clients): FinalConstruct must throw a runtime_error; fully bound must return and set the parent; '
            'registration after final construction must throw.',
            'Trusted: as C01; binding_error derives from std::runtime_error as in the Dezyne runtime.'),
    'C03': ('DESIGN.md 4/C03', 'exhaustive enumeration of selection pairs x port sets per side, each run through '
            'PortsSemanticsCfg.match and end-to-end through Builder.build, judged by a reference resolver',
            'Every (sts, mts) pair of selections over 3 (quick) / 4 (thorough) own names + unknown + other-side + injected '
            'name against every subset of real ports, single-side and end-to-end (paired with fixed representatives of '
            'the other side; thorough also crosses one representative per verdict class); exhaustive inside the bound.',
            'Trusted: vf/refmodels/portcfg.py (three-valued). Semantics of accepted builds read from accessor types in the '
            'generated header; compiled confirmation is C02.'),
    'C05': ('DESIGN.md 4/C05', 'explicit-state enumeration of all document shapes up to a node bound, parsed by the real '
            'DznJsonAst, compared with an independent expected-declaration printer',
            'All documents of <=4 (quick) / <=5 (thorough) nodes over 11 leaf kinds and 3 namespace names x 2 naming '
            'sweeps plus the per-kind payload space; exhaustive inside the bound.',
            'Trusted: vf/docgen.py (three independent printers). Documents are well-formed; malformed ones are C15.'),
    'C07': ('DESIGN.md 4/C07', 'exhaustive enumeration of declaration placements x referring scopes x spellings, each '
            'built by the real Builder, judged by a reference scope-chain lookup',
            'Port types (3^4 placements x 3 scopes x 5 spellings x 2 directions), formal types (3^4 x 3 x 5 x 4 port '
            'flavours incl. multi-client), claim reply enum (3^5 x 5), encapsulee (2^4 x 5): uniquely resolving cases '
            'must use exactly the selected declaration in the generated text, all others must fail; exhaustive.',
            'Trusted: modelgen.lookup. Types are read from the generated text; that the text compiles against distinct '
            'non-convertible types is covered by the lab checks. Formal types resolving to non-externs: any failure accepted.'),
    'C08': ('DESIGN.md 4/C08', 'stateless exploration of all set-iteration-order choice sequences (deviation bounded) of '
            'real builds through an injected ControlledSet seam, validated against real PYTHONHASHSEED child processes',
            'For 66 configurations naming 2-3 ports: every sequence of iteration-order permutations with <=1 (quick; 2 on '
            'two configurations) / <=2 (thorough; 3 on two) non-identity choices gives byte-identical files and hashes; '
            'hash = md5 recomputed; 8/64 real hash seeds x 2 insertion orders must reproduce the explored output and show '
            'at least two real orders.',
            'Seam covers iteration over sets of port names; anything else nondeterministic is caught only by the real-seed '
            'child runs (demonstrated with a hash()-ordering mutant).'),
    'C11': ('DESIGN.md 4/C11', 'stateless model checking of the compiled generated code: DFS over all thread schedules under '
            'a cooperative scheduler with link-time interposed pthread mutexes, iterative preemption bounding, deadlock '
            'detection; plus a separate free-running ThreadSanitizer pass',
            'H1 (MutexWrapped, 2-3 threads, every release-mode assignment) complete for 2 threads and bound 2 for 3 (thorough: '
            'complete); H2 (multi-client shell, legal arbiter, dispatcher, 2-3 clients, environment events) at the bounds listed '
            'per experiment in the evidence (quick ~70 000 schedules; thorough: 2 clients unbounded, 3 clients bound 1); monitor '
            'on every out-event; TSan pass of the same bodies.',
            'Trusted: vf/cxx/sched.hh + interposer, scheduled mock pump, libstdc++ mapping std::mutex to pthread_mutex_*. '
            'Memory-model effects below synchronisation operations only via TSan.'),
    'C12': ('DESIGN.md 4/C12', 'explicit-state exploration of build histories on shared input objects, replayed on fresh '
            'objects; un-pruned sweep + BFS pruned on a canonical deep snapshot incl. all module-level state',
            'All histories of <=2 (quick) / <=3 (thorough) builds over 24 operations; every build compared with a '
            'fresh-process reference, inputs deep-snapshotted before/after, support files compared with stand-alone '
            'generation, module/class-level state digest compared with the pristine one.',
            'Trusted: vf/snapshot.py. Pruning argument in the evidence; cross-checked by the un-pruned sweep.'),
    'C19': ('DESIGN.md 4/C19', 'exhaustive enumeration of comment contents (strings over an alphabet with all line '
            'breaks, hostile fragments, content trees) rendered by the real Comment and by the real Builder',
            'Every piece of the rendered text after splitting at the union of Python and C++ line terminators starts '
            'with // and carries the reference text; rendering is repeatable and non-destructive; in generated files '
            'only comment lines change when copyright/creator change (4 models x 2 fields x 54 hostile strings).',
            'Trusted: vf/refmodels/text.py and the union splitter in c19.py.'),
    'C20': ('DESIGN.md 4/C20', 'full product enumeration of building-block descriptions rendered by the real cpp_gen, '
            'token streams compared with an independent tokenizer; meaningful subset compiled with g++ -fsyntax-only',
            '~91 000 descriptions of Function/Constructor/Destructor/Namespace/Struct/Class/sections/includes/members; '
            'declaration and definition token streams must equal the expected ones; 5 200 meaningful functions composed '
            'into structs inside rendered namespaces and syntax-checked; exhaustive, same in both tiers.',
            'Trusted: the tokenizer and expected-token builders in c20.py; g++ 12.'),
    'C13': ('DESIGN.md 4/C13', 'deviation-bounded enumeration of model/configuration points x single-fault catalogue, each '
            'built by the real Builder under an alarm watchdog, judged by reference validity rules',
            'Every point within 2 (quick) / 3 (thorough) deviations of the base point must build to the exact 8-file set; '
            'every applicable single fault must fail with a dznpy error type; exhaustive inside the bound.',
            'Trusted: modelgen.Facts (reference lookup), refmodels/portcfg.py, the multi-client validity rules in c13.py.'),
    'C14': ('DESIGN.md 4/C14', 'exhaustive enumeration of declaration sets x searched names x calling scopes over a '
            '3-identifier alphabet on the real find_fqn/find_any/scope_resolution_order, judged by set comprehensions',
            'Full declaration set + all sets of <=1 (quick) / <=2 (thorough) declarations x 39 names x 41 scopes; all strings '
            'of length <=3/4 over a 10-symbol alphabet through namespaceids_t; all id lists <=3 through every notation and '
            'operator; exhaustive inside the bound.',
            'Trusted: the comprehensions in vf/checks/c14.py. Searched names have >=1 identifier.'),
    'C15': ('DESIGN.md 4/C15', 'exhaustive single-fault (thorough: pair-fault) enumeration at every JSON node of seed '
            'documents, parsed by the real DznJsonAst; oracle = exception class',
            'All single faults (delete / retype to 11 values / retag to 30 tags / invalid identifiers / list surgery) at '
            'every node of the large document and all 1-node documents (thorough: 2-node documents and all fault pairs on '
            '1-node documents); all out-event signatures; exhaustive inside the bound.',
            'Input is valid JSON. Trusted: the fault operators in vf/checks/c15.py.'),
    'C16': ('DESIGN.md 4/C16', 'explicit-state exploration of all operation histories (new/load/process on 2-3 parser '
            'slots, 3 documents) replayed on fresh objects; un-pruned sweep + BFS pruned on a canonical state',
            'All histories to depth 4 un-pruned (2 slots quick / 3 slots thorough) and pruned BFS to depth 5/7; every '
            'process() result compared with the expected declarations, earlier results re-checked after every operation.',
            'Trusted: vf/docgen.py. Pruning argument in the evidence assumptions; cross-checked by the un-pruned sweep.'),
    'C17': ('DESIGN.md 4/C17', 'explicit-state enumeration of all content trees/strings up to a bound, '
            'each executed on the real TextBlock, judged by an independent reference flattener',
            'Every string of <=3 symbols over an alphabet containing all 11 Python line-break sequences and every '
            'content tree of <=4 (quick) / <=5 (thorough) nodes is poured through TextBlock/chunk/cond_chunk/trim/+ '
            'and compared with a reference model written from the statement; exhaustive inside the bound.',
            'Trusted: the reference model vf/refmodels/text.py. Open cases of the statement are accepted either way '
            '(listed in the evidence assumptions).'),
    'C18': ('DESIGN.md 4/C18', 'exhaustive product enumeration (line sequences x indenter configurations) on the '
            'real Indentizer/TextBlock, judged by a direct specification',
            'All 400 line sequences x 96 indenter configurations, through to_list, to_str, TextBlock.indent '
            '(header / no header), repeated indentation; exhaustive inside the bound, same in both tiers.',
            'Trusted: the prefix specification in vf/checks/c18.py. Bullet lines may be right-stripped.'),
}

NOT_YET = {}


def main():
    props = [json.loads(l) for l in open(os.path.join(HERE, 'properties.jsonl'), encoding='utf-8')]
    checks = []
    for p in props:
        pid = p['id']
        if pid not in CHECKS:
            continue
        ref, tech, text, note = CHECKS[pid]
        checks.append({
            'property_id': pid,
            'quick_cmd': f'{PY} -m vf check {pid} --tier quick',
            'thorough_cmd': f'{PY} -m vf check {pid} --tier thorough',
            'evidence_file': f'/verif/evidence/{pid}.json',
            'replay_cmd_template': f'{PY} -m vf replay {{path}}',
            'engine': 'vf',
            'level_claimed': {'category': 'model_checking', 'text': text, 'design_ref': ref},
            'level_note': note,
            'technique': tech,
        })
    na = [{'property_id': p['id'],
           'reason': NOT_YET.get(p['id'], 'check not built yet (work in progress, see DESIGN.md section 7); '
                                          'will be claimed once its explorer exists')}
          for p in props if p['id'] not in CHECKS]
    manifest = {
        'version': 1,
        'setup_cmd': f'{PY} -m vf setup',
        'hooks': {
            'guard': 'DZNPY_VERIF',
            'enable': 'no source hooks: all seams are reached from outside (module-global injection in Python, '
                      'link-time interposition and a mock dzn:: runtime for the generated C++)',
            'baseline_off_cmd': 'cd /repo && /venv/bin/python -m pytest -ra -q -p no:cacheprovider --timeout=900 '
                                '--continue-on-collection-errors',
            'source_commits': [],
            'add_only': True,
        },
        'engines': [{'name': 'vf', 'path': '/verif/vf',
                     'serves_properties': sorted(CHECKS),
                     'kind_free_text': 'hand-written explicit-state / stateless explorers that execute the real '
                                       'dznpy code (and compiled generated C++) on every point of a bounded space'}],
        'checks': checks,
        'not_applicable': na,
        'notes': 'All checks import dznpy from /repo/src (never the installed wheel) and abort with exit 2 otherwise. '
                 'Exit 2 = harness could not run, never a verdict.',
    }
    with open(os.path.join(HERE, 'MANIFEST.json'), 'w', encoding='utf-8') as fh:
        json.dump(manifest, fh, indent=1)
        fh.write('\n')


if __name__ == '__main__':
    main()
