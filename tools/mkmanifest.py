#!/venv/bin/python
"""Regenerate /verif/MANIFEST.json from the table below (keeps it schema-valid at all times)."""
import json
import os

HERE = os.path.dirname(os.path.dirname(os.path.abspath(__file__)))
PY = '/venv/bin/python'

# id -> (design_ref, technique, level text, level note)
CHECKS = {
    'C17': ('DESIGN.md 4/C17', 'explicit-state enumeration of all content trees/strings up to a bound, '
            'each executed on the real TextBlock, judged by an independent reference flattener',
            'Every string of <=3 symbols over an alphabet containing all 11 Python line-break sequences and every '
            'content tree of <=4 (quick) / <=5 (thorough) nodes is poured through TextBlock/chunk/cond_chunk/trim/+ '
            'and compared with a reference model written from the statement; exhaustive inside the bound.',
            'Trusted: the reference model vf/refmodels/text.py. Open cases of the statement are accepted either way '
            '(listed in the evidence assumptions).'),
    'C18': ('DESIGN.md 4/C18', 'exhaustive product enumeration (line sequences x indenter configurations) on the '
            'real Indentizer/TextBlock, judged by a direct specification',
            'All 400 line sequences x 96 indenter configurations, through to_list, to_str, TextBlock.indent '
            '(header / no header), repeated indentation; exhaustive inside the bound, same in both tiers.',
            'Trusted: the prefix specification in vf/checks/c18.py. Bullet lines may be right-stripped.'),
}

NOT_YET = {}


def main():
    props = [json.loads(l) for l in open(os.path.join(HERE, 'properties.jsonl'), encoding='utf-8')]
    checks = []
    for p in props:
        pid = p['id']
        if pid not in CHECKS:
            continue
        ref, tech, text, note = CHECKS[pid]
        checks.append({
            'property_id': pid,
            'quick_cmd': f'{PY} -m vf check {pid} --tier quick',
            'thorough_cmd': f'{PY} -m vf check {pid} --tier thorough',
            'evidence_file': f'/verif/evidence/{pid}.json',
            'replay_cmd_template': f'{PY} -m vf replay {{path}}',
            'engine': 'vf',
            'level_claimed': {'category': 'model_checking', 'text': text, 'design_ref': ref},
            'level_note': note,
            'technique': tech,
        })
    na = [{'property_id': p['id'],
           'reason': NOT_YET.get(p['id'], 'check not built yet (work in progress, see DESIGN.md section 7); '
                                          'will be claimed once its explorer exists')}
          for p in props if p['id'] not in CHECKS]
    manifest = {
        'version': 1,
        'setup_cmd': f'{PY} -m vf setup',
        'hooks': {
            'guard': 'DZNPY_VERIF',
            'enable': 'no source hooks: all seams are reached from outside (module-global injection in Python, '
                      'link-time interposition and a mock dzn:: runtime for the generated C++)',
            'baseline_off_cmd': 'cd /repo && /venv/bin/python -m pytest -ra -q -p no:cacheprovider --timeout=900 '
                                '--continue-on-collection-errors',
            'source_commits': [],
            'add_only': True,
        },
        'engines': [{'name': 'vf', 'path': '/verif/vf',
                     'serves_properties': sorted(CHECKS),
                     'kind_free_text': 'hand-written explicit-state / stateless explorers that execute the real '
                                       'dznpy code (and compiled generated C++) on every point of a bounded space'}],
        'checks': checks,
        'not_applicable': na,
        'notes': 'All checks import dznpy from /repo/src (never the installed wheel) and abort with exit 2 otherwise. '
                 'Exit 2 = harness could not run, never a verdict.',
    }
    with open(os.path.join(HERE, 'MANIFEST.json'), 'w', encoding='utf-8') as fh:
        json.dump(manifest, fh, indent=1)
        fh.write('\n')


if __name__ == '__main__':
    main()
