#!/venv/bin/python
"""Regenerate /verif/MANIFEST.json from the table below (keeps it schema-valid at all times)."""
import json
import os

HERE = os.path.dirname(os.path.dirname(os.path.abspath(__file__)))
PY = '/venv/bin/python'

# id -> (design_ref, technique, level text, level note)
CHECKS = {
    'C01': ('DESIGN.md 4/C01',
            'deviation-bounded enumeration of model/configuration points; each generated shell is compiled against a mock Dezyne runtime and an auto-generated driver enumerates every (port, event, argument position) in both travel directions inside the compiled program',
            'Every point within 1 (quick) / 2 (thorough) deviations of the base point AND of the multi-client base point in a 26-dimensional model space (externs spelled as identifier chains or exotically - template with comma and blank, function signature in parentheses, leading :: and negative template argument, const struct X & -, generated code compiled -O0 or -O2 -DNDEBUG, ports 0-3 per direction sharing one interface / none / first-and-third only, 0/1/3 injected ports, namespaces incl. nested/shadowing/repeated names, interface placement and spelling, event menu (16 events, up to 4 formals, long names) and declaration order, per-interface externs, value- and reference-typed externs, identifier shapes incl. Python keywords and 45-character names, semantics, origin, multi-client variants incl. an interface with only claim/release, prefix, system/component), plus the cross products semantics x origin and event-menu x semantics x origin and name-relation corner points (134 / ~1480 programs). Per program every event is fired twice (declaration order, then reverse) with pairwise distinct - and same-typed - argument values while recorders sit on all events of all ports: exactly one hit on the same-named event of the same-named port; arguments, reply, out and inout values intact; REENTRANT: every inbound event handled by a component that raises an outbound event of the same port from inside the handler; out-events of the multi-client port reach the holder; under AddressSanitizer.',
            'Trusted: mock dzn:: runtime (vf/cxx/mock), mock dzn-code header generator (modelgen), driver generator (lab.py), g++ 12. Model space bounds: <=3 ports per direction, extern-typed formals.'),
    'C02': ('DESIGN.md 4/C02',
            'same compiled programs as C01; dispatcher involvement measured on a deterministic step pump (posted counter, in-dispatch flag, deferred queueing with overwritten arguments and scrubbed stack, ASan use-after-return)',
            "Same programs as C01. Per exposed port: accessor return type Sts<>/Mts<> of the right interface and support namespace, port identity (STS = the component's own port object); per event, measured on a deterministic step pump: dispatcher involvement exactly as configured, requires out-events deferred with their in-arguments copied (arguments overwritten, stack scrubbed, ASan use-after-return) - incl. reference-typed externs, 4 formals, formal names related by substring, statements longer than 120 columns, mixed STS/MTS requires ports in either declaration order.",
            'Trusted: as C01. "Blocks the caller until the dispatcher has run it" is additionally explored under the scheduler in C11.'),
    'C04': ('DESIGN.md 4/C04',
            'explicit-state exploration of multi-client histories inside the compiled program: every claim/release/other history replayed on a fresh shell with an out-event probe after each operation; un-pruned sweep + BFS pruned on (reference state, probe)',
            'All multi-client points of the lab space (naming variants incl. claim named Release and Python keywords, every granting value of a 4-field enum, claim/release signatures none/(in,out)/(inout), release declared before claim, an interface with nothing but claim/release/one out-event, multi-client port first/second/middle, namespaces, per-interface externs...) x 1..2 / 1..3 registered clients (identifiers related by prefix and case) x ALL histories over {claim(c) answered with every enum value, release(c), other in-events(c)} to depth 3 / 4 un-pruned, each replayed on a fresh shell with an out-event probe after every operation, plus BFS pruned on (reference state, probe) to depth 6 / 8; plus, to depth 2, every other registration ORDER of the clients and the alphabet extended with operations during which the component raises an out-event from inside the handler; many clients (5..33 long identifiers with a common prefix; 8/12/20 short identifiers mixing numeric strings of different lengths with alphanumeric ones) in 2..6 registration orders, every client claiming, served and releasing in turn, and in the multi-client base point EVERY registration order of 6 / 8 identifiers (720 / 40 320 shells); three-valued reference model.',
            'Trusted: as C01 plus the reference model in gen_c04 (vf/lab.py). Situations with two simultaneous holders are accepted under any of three readings of the statement.'),
    'C06': ('DESIGN.md 4/C06',
            'BFS over inclusion states (sets of already included headers) of the returned headers, each transition one translation unit through g++ (clang++ in thorough); plus second-TU link/run and multi-prefix link',
            'Corner-case points (global namespace, empty interface, no ports, multi-client, mixed semantics, prefixes, import, system, injected, namespace shadowing, per-interface externs, reversed/interleaved event order): BFS over inclusion states of the 7 returned headers - quick: every header alone, twice, every ordered pair, three full orders (~2900 translation units), thorough: the complete 2^7 x 7 graph on 3 points, every point within 1 deviation, also with clang++; the shell constructed, wired, used and destroyed from a SECOND translation unit; up to 7 shells with prefixes that differ by name, digit, letter case and underscore linked into one program; quoted-include closure; 1100 source file names (stems over the letters of the extension, every last character, dotted stems x 5 directory forms x 2 extensions): shell file names and model include.',
            'Trusted: compilers; the mock runtime headers include many standard headers, so missing standard includes are only judged for headers that include no dzn/ header.'),
    'C09': ('DESIGN.md 4/C09',
            'same compiled programs as C01; the shell is constructed for every subset of {dispatcher, runtime, service} in the user locator and identities/contents are asserted',
            "Same programs as C01 x the shell constructed for every subset of {dispatcher, runtime, unrelated service} in the user locator (8, all in one process) x both origins incl. every STS/MTS assignment: throw verdict, locator / dispatcher / runtime identity seen by the component in its constructor, exact locator content, user locator unmodified, Locator() accessor present/absent; -Wreorder findings on facility members; plus, on 8 points, a create shell and an import shell of the same encapsulee linked into ONE program and chained (import fed with the create shell's locator), each applying the check of its own origin.",
            'Trusted: as C01. The mock component reads its locator in the constructor like real Dezyne components.'),
    'C10': ('DESIGN.md 4/C10',
            'same compiled programs as C01; fault enumeration inside the program: every single binding left out one at a time on a fresh shell; explicit-state exploration of bind / unbind / FinalConstruct histories replayed on fresh shells',
            'Same programs as C01 x every event the user or the wrapped component must bind left out one at a time on a fresh shell (multi-client: x 0..4 registered clients): FinalConstruct must throw a runtime_error - and throw again when retried; fully bound must return and record the parent (also the default nullptr); registration after final construction must throw - six attempts with identifiers sorting before / between / after the registered ones, after which the identifier list is unchanged; HISTORIES: every sequence of unbind(k) / bind(k) / FinalConstruct to depth 5 / 7 over three representative bindings (first, last, an out-event of a registered client), each replayed on a fresh shell against the reference state (set of unbound bindings): until it has succeeded once, final construction fails iff something is unbound.',
            'Trusted: as C01; binding_error derives from std::runtime_error as in the Dezyne runtime.'),
    'C03': ('DESIGN.md 4/C03',
            'exhaustive enumeration of selection pairs x port sets per side, each run through PortsSemanticsCfg.match and end-to-end through Builder.build, judged by a reference resolver',
            'Every (sts, mts) pair of selections over 3 (quick) / 4 (thorough) own names + unknown + other-side + injected name against every subset of real ports x 0 / 1 / 3 injected ports: single-side through match(), end-to-end through Builder.build paired with fixed representatives of the other side - also with multi-client settings on the first / last provides name -, the SAME selection pair on both sides, every preset helper function end-to-end (thorough: also one representative per verdict class crossed); every build without and with verbose logging (outcomes must agree); ~430 000 / ~2.9 million cases; exhaustive inside the bound.',
            'Trusted: vf/refmodels/portcfg.py (three-valued). Semantics of accepted builds read from accessor types in the generated header; compiled confirmation is C02.'),
    'C05': ('DESIGN.md 4/C05',
            'explicit-state enumeration of all document shapes up to a node bound, parsed by the real DznJsonAst, compared with an independent expected-declaration printer',
            'All documents of <=4 (quick) / <=5 (thorough) nodes over 11 leaf kinds and namespace names [A], [B], [A,B], [AB] (arbitrary nesting and re-opening) x 2 naming sweeps (3 up to 3 nodes: Python keywords, namespace names, case variants), plus the per-kind payload space (ports, events, formals, nested types, instances, bindings, ranges incl. equal and negative bounds, fields, data values incl. empty strings; lists of 3..6 elements; namespaces of 3..6 identifiers) parsed without and with verbose logging; 338 000 / 8.4 million documents; exhaustive inside the bound.',
            'Trusted: vf/docgen.py (three independent printers). Documents are well-formed; malformed ones are C15.'),
    'C07': ('DESIGN.md 4/C07',
            'exhaustive enumeration of declaration placements x referring scopes x spellings, each built by the real Builder, judged by a reference scope-chain lookup',
            'Namespaces {global, A, A.B, C, AB (string-prefix sibling)}, paths repeating an identifier (A.A, A.B.A, A.A.B) incl. references qualified with the complete referring scope, and the scope A.B written as ONE multi-identifier namespace: every placement of {absent, right kind, decoy kind} x referring scopes x 6 spellings for port types, formal types (incl. a same-named enum nested in the referring interface, same-named parameters of another extern type in neighbouring events; provides / requires / multi-client / STS), the claim reply enum (nested and outer) and the encapsulee; ~50 000 builds, each without and with verbose logging; uniquely resolving cases must use exactly the selected declaration, all others must fail; thorough additionally compiles ~800 uniquely resolving cases in the lab.',
            'Trusted: modelgen.lookup. Types are read from the generated text; that the text compiles against distinct non-convertible types is covered by the lab checks. Formal types resolving to non-externs: any failure accepted.'),
    'C08': ('DESIGN.md 4/C08',
            'stateless exploration of all set-iteration-order choice sequences (deviation bounded) of real builds through an injected ControlledSet seam, validated against real PYTHONHASHSEED child processes; a second seam for the process environment (one child interpreter per single deviation from the default environment answer); construction schedules of the name sets; exhaustive length sweep of the content-hash law',
            '~90 configurations naming 2-3 ports (incl. names equal under case folding, injected ports named explicitly), events with 2-4 formals, multi-client on/off: every sequence of set-iteration-order permutations with <=1 (quick; 2 on two configurations) / <=2 (thorough; 3 on two) non-identity choices gives byte-identical files; the name sets completed at each of 6 later construction stages; every reported hash is recomputed, also after an earlier build of another configuration in the same process; content hash == MD5(UTF-8) for every content length 0..8999 / 0..65999 x 8 patterns of multi-byte characters; 8 / 64 real PYTHONHASHSEED child interpreters x 2 insertion orders must reproduce the explored output and show at least two real orders; 25 environment answers (what the source file name denotes in the working directory, environment variables, clock, umask, program name) must reproduce it as well.',
            'Seam covers iteration over sets of port names; anything else nondeterministic is caught only by the real-seed child runs (demonstrated with a hash()-ordering mutant).'),
    'C11': ('DESIGN.md 4/C11',
            'stateless model checking of the compiled generated code: DFS over all thread schedules under a cooperative scheduler with link-time interposed pthread mutexes and reader/writer locks, iterative preemption bounding, deadlock detection; plus a separate free-running ThreadSanitizer pass (a run whose threads all block is reported as a hang)',
            'H1 (MutexWrapped, 2-3 threads, every release-mode assignment) complete for 2 threads and bound 2 for 3 (thorough: complete); H2 (multi-client shell, legal arbiter, dispatcher, 2-3 clients, environment events) around a shell that creates AND around one that imports its facilities, at the bounds listed per experiment in the evidence (quick ~100 000 schedules; thorough ~4.4 million: 2 clients unbounded, 3 clients bound 1); the harnesses also built the way a release configuration compiles the generated code (-O2 -DNDEBUG); monitor on every out-event; TSan pass of the same bodies.',
            'Trusted: vf/cxx/sched.hh + interposer, scheduled mock pump, libstdc++ mapping std::mutex to pthread_mutex_*. Memory-model effects below synchronisation operations only via TSan.'),
    'C12': ('DESIGN.md 4/C12',
            'explicit-state exploration of build histories on shared input objects, replayed on fresh objects; un-pruned sweep + BFS pruned on a canonical deep snapshot incl. all module-level state',
            'All histories of <=2 (quick) / <=3 (thorough) builds over 32 operations (4 models incl. one whose MTS build fails late x 4 configurations, two of them failing in different ways, two logging verbosely, one with two explicit name sets x shared/fresh Builder) on shared FileContents / Configuration / PortsCfg / PortSelect / name-set objects, plus BFS pruned on the canonical state to depth 4 / 6; every build compared with a fresh-process reference (names, md5, reported hash), inputs deep-snapshotted before/after, support files compared with stand-alone generation - also for every sequence of 1..2 builds over 16 namespace prefixes (Dzn, Vendor.Dzn, Dzn.Dzn, dzn, ...) -, module/class-level state digest compared with the pristine one.',
            'Trusted: vf/snapshot.py. Pruning argument in the evidence; cross-checked by the un-pruned sweep.'),
    'C19': ('DESIGN.md 4/C19',
            'exhaustive enumeration of comment contents (strings over an alphabet with all line breaks, hostile fragments, content trees) rendered by the real Comment and by the real Builder',
            'Comment contents: every string of <=3 symbols over an alphabet with all Python line breaks, 60 hostile fragments, every content tree of <=3 (quick) / <=4 (thorough) nodes: rendering split at the union of Python and C++ line terminators yields only // lines carrying the text; rendering is repeatable, survives every mutator (append, +=, trim, lines setter/extend, set_indentor) and (deep) copies; in generated files (4 models x copyright / creator_info x hostile fragments) only comment lines change and no comment splices into code. FAILURE PATHS: 7 refused extensions (+=, append, +, lines setter; Exception and BaseException; twice) leave the comment a comment with its text, and a later successful extension renders as comment lines.',
            'Trusted: vf/refmodels/text.py and the union splitter in c19.py.'),
    'C20': ('DESIGN.md 4/C20',
            'full product enumeration of building-block descriptions rendered by the real cpp_gen, token streams compared with an independent tokenizer; meaningful subset compiled with g++ -fsyntax-only',
            '~94 000 descriptions: the full product of Function dimensions, Constructor / Destructor / Namespace / Struct / Class / sections / includes / MemberVariable / Param over 432 type descriptions, the helper creators, object-sharing sequences, contents that are comments / blocks with header / indented or nested blocks, every pattern of present / absent constructor parameters, and observe-change-observe sequences compared with fresh blocks; declaration and definition token streams must equal the expected ones (independent tokenizer); 5 200 meaningful functions composed into structs inside rendered namespaces and syntax-checked by g++; exhaustive, same in both tiers. FAILURE PATHS: block descriptions holding an item that cannot be rendered (Param / Function object raising CppGenError, an object whose __str__ raises) for struct / class / namespace / function / constructor / section, 4 positions, 1-2 failed attempts, then the SAME list repaired in place must render like an equal fresh one and a bystander block is unchanged.',
            'Trusted: the tokenizer and expected-token builders in c20.py; g++ 12.'),
    'C13': ('DESIGN.md 4/C13',
            'deviation-bounded enumeration of model/configuration points x single-fault catalogue, each built by the real Builder (without and with verbose logging) under a CPU-time watchdog, judged by reference validity rules',
            'Every point within 2 (quick) / 3 (thorough) deviations of the base point must build to the exact 8-file set; every applicable single fault of the catalogue (encapsulee unknown / wrong kind / ambiguous / empty / too long, port type missing / wrong kind / ambiguous, every C03 rejection class and every valid alternative spelling of a selection, empty name sets / names, 20 multi-client faults, facilities origin that is not a member of the enumeration, odd file names) must fail with a dznpy error type resp. succeed; ~59 000 / ~690 000 cases; no verdict depends on wall-clock time; exhaustive inside the bound.',
            'Trusted: modelgen.Facts (reference lookup), refmodels/portcfg.py, the multi-client validity rules in c13.py.'),
    'C14': ('DESIGN.md 4/C14',
            'exhaustive enumeration of declaration sets x searched names x calling scopes over a 3-identifier alphabet on the real find_fqn/find_any/scope_resolution_order, judged by set comprehensions',
            'Identifiers {a, b, ab}: full declaration set, all sets of <=1 (quick) / <=2 (thorough) declarations and sets declaring one FQN two or three times x 39 names x 41 scopes through find_fqn / scope_resolution_order / find_any (~180 000 / 1.4 million queries); all strings of length <=4 / 5 over a 10-symbol alphabet, all token sequences of <=5 / 6 tokens over 3 identifiers and the delimiters, and every ASCII character probed at every identifier position through namespaceids_t / NamespaceIds; all id lists <=3 through every notation, +, +=, sum and NamespaceTree with aliasing, fresh-value and observe-change-observe laws; id lists of 4..7 identifiers cut into every sequence of NamespaceTree levels.',
            'Trusted: the comprehensions in vf/checks/c14.py. Searched names have >=1 identifier.'),
    'C15': ('DESIGN.md 4/C15',
            'exhaustive single-fault (thorough: pair-fault) enumeration at every JSON node of seed documents, parsed by the real DznJsonAst; oracle = exception class',
            'All single faults (delete / retype to 11 values / retag to 45 tags incl. format-special ones / 26 invalid or format-special identifiers / list surgery / 25 integer-like values) at every JSON node of the large document and all 1-node documents, parsed without and with verbose logging (thorough: all 2-node documents and all fault pairs on the 1-node documents, ~10 million parses); every out-event signature over 8 reply spellings x <=2 formals x 7 spellings of the direction; exhaustive inside the bound.',
            'Input is valid JSON. Trusted: the fault operators in vf/checks/c15.py.'),
    'C16': ('DESIGN.md 4/C16',
            'explicit-state exploration of all operation histories (new/load/process on 2-3 parser slots, 3 documents) replayed on fresh objects; un-pruned sweep + BFS pruned on a canonical state',
            '2 (quick) / 3 (thorough) parser slots, 4 documents (D0 and D1 declare the SAME fully qualified names for every declaration kind with different payloads, spell namespace A.B in the two possible ways and clash type / namespace names across documents; D2 failing inside a nested namespace; D3 declaring nothing), operations new / load_file on the existing instance / fresh instance + load_file through ONE shared path whose content is rewritten / process: ALL histories to depth 4 un-pruned (350 000 quick), pruned BFS to depth 5 / 7, and on ONE instance every sequence of load_file / process of length <= 6 / 7; every process() result compared with the expected declarations AND (==, repr) with the result of a fresh parser, earlier results re-checked after every operation.',
            'Trusted: vf/docgen.py. Pruning argument in the evidence assumptions; cross-checked by the un-pruned sweep.'),
    'C17': ('DESIGN.md 4/C17',
            'explicit-state enumeration of all content trees/strings up to a bound, each executed on the real TextBlock, judged by an independent reference flattener',
            'Every string of <=3 symbols over an alphabet containing all 11 Python line-break sequences, every content tree of <=4 (quick) / <=5 (thorough) nodes over 8 leaves x 4 container kinds, the same container OBJECT at several positions, scalars that look empty (0, 0.0, False) - poured through TextBlock / append / + / += / trim / chunk / cond_chunk / lines setter, also after the block has been observed (string form and lines stay two views of one state), and compared with a reference model written from the statement; exhaustive inside the bound. FAILURE PATHS: 7 refused operations (append / += / + / constructor / lines setter / chunk / cond_chunk) x 8 positions of an item whose __str__ raises (Exception and BaseException) x 3 blocks x header: the receiver is unchanged, the next operations are right, the SAME container objects repaired in place flatten like fresh ones.',
            'Trusted: the reference model vf/refmodels/text.py. Open cases of the statement are accepted either way (listed in the evidence assumptions).'),
    'C18': ('DESIGN.md 4/C18',
            'exhaustive product enumeration (line sequences x indenter configurations) on the real Indentizer/TextBlock, judged by a direct specification',
            'All 400 line sequences x 96 indenter configurations (spaces 0-5 / tab, no bullets / all / first-only, glyphs shorter, equal and longer than the width, factory presets incl. their None argument) through to_list, to_str, TextBlock.indent (header as string / list / TextBlock object that is changed afterwards, explicit / pre-set indentor), repeated indentation incl. a second plain indent(), bare strings and falsy scalars as contents, and list/string agreement on lines containing exotic characters; exhaustive inside the bound, same in both tiers. FAILURE PATHS: a rendering that dies half-way (item whose __str__ raises, 6 positions, 5 call sequences) leaves the same indenter, the same repaired container objects and text blocks rendering like fresh equal ones.',
            'Trusted: the prefix specification in vf/checks/c18.py. Bullet lines may be right-stripped.'),
}

NOT_YET = {}


def main():
    props = [json.loads(l) for l in open(os.path.join(HERE, 'properties.jsonl'), encoding='utf-8')]
    checks = []
    for p in props:
        pid = p['id']
        if pid not in CHECKS:
            continue
        ref, tech, text, note = CHECKS[pid]
        checks.append({
            'property_id': pid,
            'quick_cmd': f'{PY} -m vf check {pid} --tier quick',
            'thorough_cmd': f'{PY} -m vf check {pid} --tier thorough',
            'evidence_file': f'/verif/evidence/{pid}.json',
            'replay_cmd_template': f'{PY} -m vf replay {{path}}',
            'engine': 'vf',
            'level_claimed': {'category': 'model_checking', 'text': text, 'design_ref': ref},
            'level_note': note,
            'technique': tech,
        })
    na = [{'property_id': p['id'],
           'reason': NOT_YET.get(p['id'], 'check not built yet (work in progress, see DESIGN.md section 7); '
                                          'will be claimed once its explorer exists')}
          for p in props if p['id'] not in CHECKS]
    manifest = {
        'version': 1,
        'setup_cmd': f'{PY} -m vf setup',
        'hooks': {
            'guard': 'DZNPY_VERIF',
            'enable': 'no source hooks: all seams are reached from outside (module-global injection in Python, '
                      'link-time interposition and a mock dzn:: runtime for the generated C++)',
            'baseline_off_cmd': 'cd /repo && /venv/bin/python -m pytest -ra -q -p no:cacheprovider --timeout=900 '
                                '--continue-on-collection-errors',
            'source_commits': [],
            'add_only': True,
        },
        'engines': [{'name': 'vf', 'path': '/verif/vf',
                     'serves_properties': sorted(CHECKS),
                     'kind_free_text': 'hand-written explicit-state / stateless explorers that execute the real '
                                       'dznpy code (and compiled generated C++) on every point of a bounded space'}],
        'checks': checks,
        'not_applicable': na,
        'notes': 'All checks import dznpy from /repo/src (never the installed wheel) and abort with exit 2 otherwise. '
                 'Exit 2 = harness could not run, never a verdict.',
    }
    with open(os.path.join(HERE, 'MANIFEST.json'), 'w', encoding='utf-8') as fh:
        json.dump(manifest, fh, indent=1)
        fh.write('\n')


if __name__ == '__main__':
    main()
