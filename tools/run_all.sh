#!/bin/bash
# usage: run_all.sh quick|thorough  -> runs every check, prints one line each
tier=${1:-quick}
cd /verif
for c in C01 C02 C03 C04 C05 C06 C07 C08 C09 C10 C11 C12 C13 C14 C15 C16 C17 C18 C19 C20; do
  s=$(date +%s)
  out=$(/venv/bin/python -m vf check $c --tier $tier 2>&1); rc=$?
  e=$(date +%s)
  echo "$c rc=$rc $((e-s))s $(echo "$out" | tail -1)"
  echo "$out" | grep -E "^(VIOLATION|KNOWN|HARNESS)" | head -5
done
