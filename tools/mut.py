#!/venv/bin/python
"""Apply a textual mutation to /repo, run checks, revert.  usage: mut.py FILE 'old' 'new' ID[,ID..] [tier]"""
import subprocess, sys
f, old, new, ids = sys.argv[1:5]
tier = sys.argv[5] if len(sys.argv) > 5 else 'quick'
p = '/repo/' + f
s = open(p, encoding='utf-8').read()
assert s.count(old) >= 1, 'pattern not found'
open(p, 'w', encoding='utf-8').write(s.replace(old, new, 1))
try:
    for i in ids.split(','):
        r = subprocess.run(['/venv/bin/python', '-m', 'vf', 'check', i, '--tier', tier], cwd='/verif', capture_output=True, text=True, timeout=900)
        lines = [l for l in r.stdout.splitlines() if l.startswith(('VIOLATION', 'KNOWN', 'HARNESS', '  key', '  what', i))]
        print(f'--- {i} rc={r.returncode}'); print('\n'.join(l[:300] for l in lines[:12])); print(r.stderr[-500:])
finally:
    subprocess.run(['git', '-C', '/repo', 'checkout', '--', '.'])
