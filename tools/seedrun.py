#!/venv/bin/python
"""Apply /verif/seeded/<id>/patch.diff to /repo, run the given checks (in parallel), undo.
usage: seedrun.py <seed id> <ID[,ID...]> [tier]"""
import json, os, subprocess, sys
seed, ids = sys.argv[1], sys.argv[2]
tier = sys.argv[3] if len(sys.argv) > 3 else 'quick'
patch = f'/verif/seeded/{seed}/patch.diff'
assert subprocess.run(['git', '-C', '/repo', 'status', '--porcelain'], capture_output=True, text=True).stdout.strip() == '', '/repo not clean'
subprocess.run(['git', '-C', '/repo', 'apply', patch], check=True)
res = {}
try:
    procs = [(i, subprocess.Popen(['/venv/bin/python', '-m', 'vf', 'check', i, '--tier', tier], cwd='/verif', stdout=subprocess.PIPE, stderr=subprocess.PIPE, text=True)) for i in ids.split(',')]
    for i, pr in procs:
        try:
            out, err = pr.communicate(timeout=3000)
        except subprocess.TimeoutExpired:
            pr.kill(); out, err = pr.communicate()
        keys = [l.strip() for l in out.splitlines() if l.startswith('  key=')]
        res[i] = {'rc': pr.returncode, 'keys': keys[:6]}
        print(f'--- {seed} / {i}: rc={pr.returncode} ' + ('DETECTED' if pr.returncode == 1 else 'not detected'))
        for k in keys[:5]: print('    ' + k[:200])
        if pr.returncode not in (0, 1): print(out[-600:], err[-300:])
finally:
    subprocess.run(['git', '-C', '/repo', 'checkout', '--', '.'])
    subprocess.run(['git', '-C', '/repo', 'clean', '-fdq', 'src'])
print(json.dumps(res))
