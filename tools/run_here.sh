#!/bin/bash
# usage: run_here.sh quick|thorough [IDs...]  -> runs the checks of the CURRENT directory's vf package (a snapshot made by
# `vp run`), evidence and replays go to /tmp/vf_alt (VF_REPO is set to the real /repo through a symlink-free alias)
tier=${1:-quick}; shift
ids=${@:-C01 C02 C03 C04 C05 C06 C07 C08 C09 C10 C11 C12 C13 C14 C15 C16 C17 C18 C19 C20}
for c in $ids; do
  s=$(date +%s)
  out=$(/venv/bin/python -m vf check $c --tier $tier 2>&1); rc=$?
  e=$(date +%s)
  echo "$c rc=$rc $((e-s))s $(echo "$out" | tail -1)"
  echo "$out" | grep -E "^(VIOLATION|KNOWN|HARNESS|  key=|  what=)" | head -12
done
