#!/venv/bin/python
"""Apply several textual replacements to one /repo file, run checks, revert.
usage: mut2.py FILE IDS 'old1' 'new1' ['old2' 'new2' ...]"""
import subprocess, sys
f, ids = sys.argv[1:3]
pairs = sys.argv[3:]
p = '/repo/' + f
s = open(p, encoding='utf-8').read()
for i in range(0, len(pairs), 2):
    assert pairs[i] in s, 'pattern not found: ' + pairs[i][:60]
    s = s.replace(pairs[i], pairs[i + 1], 1)
open(p, 'w', encoding='utf-8').write(s)
try:
    procs = [(i, subprocess.Popen(['/venv/bin/python', '-m', 'vf', 'check', i], cwd='/verif', stdout=subprocess.PIPE, stderr=subprocess.PIPE, text=True)) for i in ids.split(',')]
    for i, pr in procs:
        try:
            out, err = pr.communicate(timeout=1500)
        except subprocess.TimeoutExpired:
            pr.kill(); out, err = pr.communicate()
        lines = [l for l in out.splitlines() if l.startswith(('VIOLATION', 'KNOWN', 'HARNESS', '  key', i))]
        print(f'--- {i} rc={pr.returncode}'); print('\n'.join(l[:230] for l in lines[:9])); print(err[-300:])
finally:
    subprocess.run(['git', '-C', '/repo', 'checkout', '--', '.'])
