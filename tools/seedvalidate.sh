#!/bin/bash
# usage: seedvalidate.sh <agent worktree> <seed id>
# Confirms an independently produced seeded change in a FRESH scratch worktree: the patch applies, the pinned
# suite and the src-level suite are unchanged, the demonstration passes without and fails with the change.
wt=$1; id=$2; val=/tmp/val_$id
rm -rf $val; git -C /repo worktree prune; git -C /repo worktree add -q --detach $val HEAD || exit 2
cd $val
echo "== demo on unchanged code"; /venv/bin/python $wt/SEED/demo.py $val/src > /tmp/val_$id.demo0 2>&1; d0=$?; echo "exit $d0"
git apply $wt/SEED/patch.diff || { echo "PATCH DOES NOT APPLY"; exit 2; }
echo "== pinned suite"; p1=$(/venv/bin/python -m pytest -q -p no:cacheprovider --timeout=900 --continue-on-collection-errors 2>&1 | tail -1); echo "$p1"
echo "== src-level suite"; p2=$(cd test && /venv/bin/python -m pytest -q -p no:cacheprovider --continue-on-collection-errors 2>&1 | tail -1); echo "$p2"
echo "== demo with the change"; /venv/bin/python $wt/SEED/demo.py $val/src > /tmp/val_$id.demo1 2>&1; d1=$?; echo "exit $d1"
mkdir -p /verif/seeded/$id; cp -r $wt/SEED/. /verif/seeded/$id/
echo "{\"validated_in\": \"fresh scratch worktree of /repo HEAD $(git -C /repo rev-parse --short HEAD)\", \"pinned_suite\": \"$p1\", \"src_level_suite\": \"$p2\", \"demo_exit_unchanged\": $d0, \"demo_exit_changed\": $d1}" > /verif/seeded/$id/validation.json
cd /; git -C /repo worktree remove --force $val
if [ "$d0" = "0" ] && [ "$d1" = "1" ]; then echo "VALID SEED"; else echo "INVALID SEED (demo exits $d0 / $d1)"; fi
